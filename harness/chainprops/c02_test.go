package chainprops

// C02 (event-trigger half), end to end: "a keyper requests decryption of an
// event-triggered identity only after a matching log was included no later
// than the trigger's expiry block; only for a keyper set it belongs to whose
// key generation succeeded; an identity already marked decrypted is never
// triggered again; the identities inside one trigger are sorted and distinct".
//
// The props-package C02 check writes fired_triggers rows itself. Here the rows
// are produced by the real MultiEventSyncer + TriggerProcessor from chain logs
// (fakechain), and the requests are what the real Keyper.processNewBlock
// (verif hook) puts on the decryption trigger channel. The chains and the
// partitions of the head sequence into processed blocks are C16's; the oracle
// is the C02 statement evaluated directly on the canonical chain history
// (soundness of every fired row and of every requested identity), not the
// equality with a fold that C16 uses.

import (
	"bytes"
	"context"
	"fmt"
	"math/big"
	"sort"
	"strings"
	"testing"

	"github.com/ethereum/go-ethereum/common"
	"github.com/ethereum/go-ethereum/core/types"
	"github.com/ethereum/go-ethereum/crypto"
	"pgregory.net/rapid"

	"github.com/shutter-network/rolling-shutter/rolling-shutter/keyper/epochkghandler"
	corekeyper "github.com/shutter-network/rolling-shutter/rolling-shutter/keyper/database"
	svc "github.com/shutter-network/rolling-shutter/rolling-shutter/keyperimpl/shutterservice"
	svcdb "github.com/shutter-network/rolling-shutter/rolling-shutter/keyperimpl/shutterservice/database"
	"github.com/shutter-network/rolling-shutter/rolling-shutter/medley/broker"
	syncevent "github.com/shutter-network/rolling-shutter/rolling-shutter/medley/chainsync/event"
	"github.com/shutter-network/rolling-shutter/rolling-shutter/medley/configuration"
	"github.com/shutter-network/rolling-shutter/rolling-shutter/medley/encodeable/keys"
	"github.com/shutter-network/rolling-shutter/rolling-shutter/medley/encodeable/number"
	"verif/harness/chainprops/fakechain"
)

var recC02 = recorder("C02")

const c02ActivationBase = 1_000_000 // activation block of keyper set i is base+i: identifies the set in a DecryptionTrigger

func c02Key(seed string) *keys.ECDSAPrivate {
	k, err := crypto.ToECDSA(crypto.Keccak256([]byte(seed)))
	if err != nil {
		panic(err)
	}
	return &keys.ECDSAPrivate{Key: k}
}

var c02SetModes = []string{"ok", "ok", "ok", "ok", "not-member", "dkg-failed", "dkg-pending", "no-eon"}

type c02Node struct {
	node   *dbNode
	kpr    *svc.Keyper
	trigCh chan *broker.Event[*epochkghandler.DecryptionTrigger]
	close  func()
	modes  map[uint64]string // keyper set index -> state of membership / key generation
}

// newC02Node builds a keyper whose processNewBlock runs the real multi event
// syncer, on a fresh database in which every keyper set the chain registers
// triggers for exists in the drawn state.
func newC02Node(c *c16Chain, maxRange uint64, modes map[uint64]string) *c02Node {
	ctx := context.Background()
	n := &c02Node{node: newDBNode(kindMulti.def()), modes: modes}
	me := c02Key("chainprops-c02-me")
	cfg := &svc.Config{
		InstanceID: 42,
		Chain: &svc.ChainConfig{
			Node:      &configuration.EthnodeConfig{PrivateKey: me},
			Contracts: &svc.ContractsConfig{ShutterEventTriggerRegistry: triggerAddr},
		},
		MaxNumKeysPerMessage: 8,
	}
	q := corekeyper.New(n.node.Pool)
	must := func(err error) {
		if err != nil {
			panic(fmt.Sprintf("harness: keyper set setup: %v", err))
		}
	}
	others := []string{c02Key("o1").EthereumAddress().Hex(), c02Key("o2").EthereumAddress().Hex(), c02Key("o3").EthereumAddress().Hex()}
	idxs := make([]uint64, 0, len(modes))
	for i := range modes {
		idxs = append(idxs, i)
	}
	sort.Slice(idxs, func(a, b int) bool { return idxs[a] < idxs[b] })
	for _, i := range idxs {
		mode := modes[i]
		keypers := []string{me.EthereumAddress().Hex(), others[0], others[1]}
		if mode == "not-member" {
			keypers = others
		}
		must(q.InsertBatchConfig(ctx, corekeyper.InsertBatchConfigParams{KeyperConfigIndex: int32(i), Height: int64(i), Keypers: keypers, Threshold: 2, Started: true, ActivationBlockNumber: int64(c02ActivationBase + i)}))
		if mode == "no-eon" {
			continue
		}
		must(q.InsertEon(ctx, corekeyper.InsertEonParams{Eon: int64(10 + i), Height: int64(10 + i), ActivationBlockNumber: int64(c02ActivationBase + i), KeyperConfigIndex: int64(i)}))
		switch mode {
		case "ok", "not-member":
			must(q.InsertDKGResult(ctx, corekeyper.InsertDKGResultParams{Eon: int64(10 + i), Success: true, PureResult: []byte{}}))
		case "dkg-failed":
			must(q.InsertDKGResult(ctx, corekeyper.InsertDKGResultParams{Eon: int64(10 + i), Success: false}))
		}
	}
	c.m.maxRange = maxRange
	syncer, cl := buildMultiSyncer(c.m, n.node)
	n.trigCh = make(chan *broker.Event[*epochkghandler.DecryptionTrigger], 256)
	n.kpr = svc.VerifNewKeyper(cfg, n.node.Pool, n.trigCh, nil, syncer)
	n.close = func() { cl(); n.node.Close() }
	return n
}

type c02Reg struct {
	r, e uint64
	def  []byte
}

// registrationsOf lists the admissible registrations of key on the canonical
// chain up to block pos, in chain order.
func (c *c16Chain) registrationsOf(key string, pos uint64) []c02Reg {
	var out []c02Reg
	c.m.eachCanonicalEvent(1, pos, func(b *fakechain.Block, ev *refEvent) {
		if ev.table == registeredSpec.name && ev.admissible && ev.key == key {
			out = append(out, c02Reg{b.Number(), ev.expiry, ev.cols["definition"].([]byte)})
		}
	})
	return out
}

// checkFiredRow evaluates the C02 statement for one fired_triggers row at a
// canonical position pos: the row names a log of the canonical chain that
// matches the definition of the registration in force at the log's block (the
// latest admissible registration of that key in an earlier block, or failing
// that one in the same block), and that registration had not expired.
func (c *c16Chain) checkFiredRow(r map[string]any, pos uint64) *failure {
	m := uint64(r["block_number"].(int64))
	blk := c.m.chain.Canonical(m)
	if blk == nil || m > pos || !bytesEq(blk.Hash().Bytes(), r["block_hash"]) {
		return &failure{"fired-on-abandoned-block", "fired row names a block that is not on the canonical chain up to the position: " + renderRow(r)}
	}
	li := int(r["log_index"].(int64))
	if li >= len(blk.Logs) || int64(blk.Logs[li].TxIndex) != r["tx_index"].(int64) {
		return &failure{"fired-without-log", "fired row names no log of its block: " + renderRow(r)}
	}
	key := pkOf(r, []string{"eon", "identity"})
	var inForce *c02Reg
	regs := c.registrationsOf(key, pos)
	for i := range regs {
		if regs[i].r < m {
			inForce = &regs[i]
		}
	}
	if inForce == nil {
		for i := range regs {
			if regs[i].r == m {
				inForce = &regs[i]
			}
		}
	}
	if inForce == nil {
		return &failure{"fired-without-registration", fmt.Sprintf("no admissible registration of the trigger at or before block %d on the canonical chain: %s", m, renderRow(r))}
	}
	d := c.defByBytes(inForce.def)
	if !chainVerdict(d, &blk.Logs[li]) {
		return &failure{"fired-log-does-not-match", fmt.Sprintf("the log named by the fired row does not match %s: %s", defDesc(d), renderRow(r))}
	}
	if m > inForce.e {
		return &failure{"fired-after-expiry", fmt.Sprintf("trigger registered in block %d with expiration block %d is recorded as fired by a log of block %d: %s", inForce.r, inForce.e, m, renderRow(r))}
	}
	return nil
}

type c02Outcome struct {
	fail      *failure
	labels    map[string]bool
	fired     int
	requested int
}

func (c *c16Chain) runC02Partition(rt *rapid.T, l string, hs []c16Head, p *c16Partition, modes map[uint64]string) c02Outcome {
	ctx := context.Background()
	out := c02Outcome{labels: map[string]bool{}}
	n := newC02Node(c, p.maxRange, modes)
	defer n.close()
	qs := svcdb.New(n.node.Pool)
	decrypted := map[string]bool{}
	var pos uint64
	stale := false
	for i, h := range hs {
		if !p.sel[i] {
			continue
		}
		c.m.chain.SetHead(h.blk)
		hdr := types.CopyHeader(h.blk.Header)
		ev := &syncevent.LatestBlock{Number: number.BigToBlockNumber(new(big.Int).Set(hdr.Number)), BlockHash: hdr.Hash(), Header: hdr}
		err := n.kpr.VerifProcessNewBlock(ctx, ev)
		if u := n.node.Srv.Unsupported(); len(u) > 0 {
			recC02.Inconclusive(fmt.Sprintf("pgfake: unsupported SQL: %v", u))
			panic(fmt.Sprintf("pgfake could not execute a statement (inconclusive): %v", u))
		}
		when := fmt.Sprintf("after processing block %c%d", h.phase, h.blk.Number())
		if err != nil {
			out.fail = &failure{"process-new-block-error", fmt.Sprintf("%s: unexpected error without any fault: %v", when, err)}
			return out
		}
		var stN uint64
		var stH []byte
		for _, r := range n.node.Srv.Rows(kindMulti.status.name) {
			stN, stH = uint64(r["block_number"].(int64)), r["block_hash"].([]byte)
		}
		// the request ranges of this step (model, for labels only)
		lo := pos + 1
		if h.phase == 'B' && stale && h.blk.Number() == pos+1 {
			lo = pos - min(pos, reorgDepth) + 1
			stale = false
			out.labels["reorg-observed"] = true
		}
		if stN >= lo && stN > 0 && h.blk.Number() >= lo {
			c.straddleLabels(lo, stN, p.maxRange, out.labels)
		}
		if h.phase == 'A' && stN == h.blk.Number() {
			stale = true
		}
		pos = stN
		// drain the channel
		var trigs []*epochkghandler.DecryptionTrigger
		for len(n.trigCh) > 0 {
			trigs = append(trigs, (<-n.trigCh).Value)
		}
		if !c.m.chain.IsCanonical(stN, stH) {
			if len(trigs) > 0 {
				out.labels["requests-on-stale-position(not judged)"] = true
			}
			continue
		}
		rows := n.node.Srv.Rows(firedSpec.name)
		firedKeys := map[string]bool{}
		for _, r := range rows {
			firedKeys[pkOf(r, []string{"eon", "identity"})] = true
			if f := c.checkFiredRow(r, stN); f != nil {
				f.detail = when + " (position " + fmt.Sprint(stN) + "): " + f.detail
				out.fail = f
				return out
			}
		}
		out.fired = len(rows)
		for _, tr := range trigs {
			idx := tr.BlockNumber - c02ActivationBase
			if mode, ok := modes[idx]; !ok || mode != "ok" {
				out.fail = &failure{"requested-for-undecryptable-keyper-set", fmt.Sprintf("%s: decryption requested for keyper set %d which is %q", when, idx, mode)}
				return out
			}
			var eons []int64
			var ids [][]byte
			for j, ip := range tr.IdentityPreimages {
				id := ip.Bytes()
				if j > 0 && bytes.Compare(tr.IdentityPreimages[j-1].Bytes(), id) >= 0 {
					out.fail = &failure{"identities-not-sorted-distinct", when + ": identity list of a trigger is not strictly increasing"}
					return out
				}
				key := pkOf(map[string]any{"eon": int64(idx), "identity": id}, []string{"eon", "identity"})
				if !firedKeys[key] {
					out.fail = &failure{"requested-without-fired-trigger", fmt.Sprintf("%s: decryption of identity %x requested for keyper set %d but no matching log is recorded for it", when, id[:4], idx)}
					return out
				}
				if decrypted[key] {
					out.fail = &failure{"decrypted-identity-requested-again", fmt.Sprintf("%s: identity %x of keyper set %d was marked decrypted and is requested again", when, id[:4], idx)}
					return out
				}
				eons = append(eons, int64(idx))
				ids = append(ids, id)
				out.requested++
			}
			out.labels["identities-requested"] = true
			// the key release path marks identities decrypted; without a fork
			// the flag cannot be lost by a rollback
			if !c.fork && rapid.IntRange(0, 2).Draw(rt, fmt.Sprintf("%sdecrypt%d", l, i)) == 0 {
				if err := qs.UpdateEventBasedDecryptedFlags(ctx, svcdb.UpdateEventBasedDecryptedFlagsParams{Eons: eons, Identities: ids}); err != nil {
					panic("harness: " + err.Error())
				}
				for j := range ids {
					decrypted[pkOf(map[string]any{"eon": eons[j], "identity": ids[j]}, []string{"eon", "identity"})] = true
				}
				out.labels["identities-marked-decrypted"] = true
			}
		}
	}
	return out
}

// straddleLabels classifies the request ranges [lo..hi] (chunks of maxRange)
// of one processed block against the expiry blocks of the registrations of the
// canonical chain.
func (c *c16Chain) straddleLabels(lo, hi, maxRange uint64, labels map[string]bool) {
	_, info := c.refFiredInfo(hi)
	type reg struct {
		key  string
		r, e uint64
		def  *svc.EventTriggerDefinition
	}
	var regs []reg
	c.m.eachCanonicalEvent(1, hi, func(b *fakechain.Block, ev *refEvent) {
		if ev.table == registeredSpec.name && ev.admissible {
			regs = append(regs, reg{ev.key, b.Number(), ev.expiry, c.defByBytes(ev.cols["definition"].([]byte))})
		}
	})
	for clo := lo; clo <= hi; clo += maxRange {
		chi := min(clo+maxRange-1, hi)
		if chi > clo {
			labels["range-of-several-blocks"] = true
		}
		for _, rg := range regs {
			if !(rg.r < clo && clo <= rg.e && rg.e < chi) {
				continue
			}
			labels["range-straddles-expiry"] = true
			late := false
			for m := rg.e + 1; m <= chi; m++ {
				blk := c.m.chain.Canonical(m)
				for k := range blk.Logs {
					if chainVerdict(rg.def, &blk.Logs[k]) {
						late = true
					}
				}
			}
			if late {
				labels["range-straddles-expiry:matching-log-after-expiry-in-range"] = true
				if fi, ok := info[rg.key]; !ok || fi.block > rg.e {
					labels["range-straddles-expiry:only-late-matching-log"] = true
				}
			}
		}
	}
}

func runC02Case(rt *rapid.T, nPartitions int) {
	exclF9 := isKnown("C16", sigF9) || isKnown("C02", sigF9)
	exclReReg := isKnown("C16", sigReRegLost) || isKnown("C15", sigReRegLost) || isKnown("C02", sigReRegLost)
	c := genC16Chain(rt, exclReReg, recC02)
	defer c.m.close()
	hs := c.heads()
	// keyper sets: one per eon value the chain registers triggers for
	modes := map[uint64]string{}
	for _, t := range c.trig {
		if t.eon < 64 {
			if _, ok := modes[t.eon]; !ok {
				modes[t.eon] = rapid.SampledFrom(c02SetModes).Draw(rt, fmt.Sprintf("set%dmode", t.eon))
			}
		}
	}
	var ms []string
	for i := uint64(0); i < 64; i++ {
		if mo, ok := modes[i]; ok {
			ms = append(ms, fmt.Sprintf("set%d=%s", i, mo))
		}
	}
	for k := 0; k < nPartitions; k++ {
		l := fmt.Sprintf("p%d", k)
		p := c.drawPartition(rt, l, hs, false)
		if p.kind == "small-ranges" && p.maxRange == 1 {
			p.maxRange = uint64(rapid.IntRange(2, 5).Draw(rt, l+"maxRange2"))
		}
		if exclF9 && c.excludeF9(hs, p) {
			recC02.Excluded(sigF9)
		}
		out := c.runC02Partition(rt, l, hs, p, modes)
		pd := p.String(hs)
		if out.fail != nil {
			fatalf(rt, out.fail.sig, "%s\nchain: %s\nkeyper sets: %s\npartition: %s", out.fail.detail, c.desc, strings.Join(ms, " "), pd)
		}
		labels := []string{"partition:" + strings.SplitN(p.kind, "+", 2)[0], fmt.Sprintf("fired=%d", min(out.fired, 3))}
		for lb := range out.labels {
			labels = append(labels, lb)
		}
		for _, mo := range modes {
			labels = append(labels, "keyper-set:"+mo)
		}
		sort.Strings(labels)
		labels = dedup(labels)
		nontrivial := out.fired > 0 && (out.labels["range-straddles-expiry"] || out.labels["identities-requested"])
		recC02.Case(c.desc+" | "+strings.Join(ms, " ")+" | "+pd, nontrivial, labels...)
	}
}

func dedup(s []string) []string {
	var out []string
	for i, x := range s {
		if i == 0 || s[i-1] != x {
			out = append(out, x)
		}
	}
	return out
}

var _ = common.Address{}

func TestC02_EventTriggerEndToEnd(t *testing.T) {
	recC02.AddRule("end to end (chainprops): C16's random chains (registrations, re-registrations, the same identity under several eons, matching / near-miss logs at offsets around registration and expiry, optional fork) processed by the real Keyper.processNewBlock (real MultiEventSyncer + TriggerProcessor over fakechain, real prepareEventBasedTriggers) under partitions of the head sequence whose request ranges mostly span several blocks (MaxRequestBlockRange 2..5 or default); keyper sets in states ok / not-member / dkg-failed / dkg-pending / no-eon; oracle = the C02 statement on the chain history: every fired_triggers row names a canonical log that matches the registration in force at its block and lies at or before that registration's expiry block; every identity on the decryption trigger channel has such a row, belongs to a keyper set the keyper is a member of with successful key generation, was not marked decrypted before, and identities are strictly increasing; judged whenever the stored position is canonical; non-trivial = a trigger fired and a request range straddled an expiry block or an identity was requested")
	recC02.Assume(
		"chainprops part: pgfake and fakechain stand in for PostgreSQL and the execution node; no fault injection; SyncStartBlockNumber 0",
		"partitions avoid the open finding trigger-registered-inside-range-invisible the way C16 does (counted as excluded); soundness of fired rows does not depend on it",
		"identities are marked decrypted only on chains without a fork (a rollback re-inserts a registration row with decrypted=false; not judged here)",
	)
	runRapid(t, N(1000, 24000), func(rt *rapid.T) { runC02Case(rt, 3) })
}
