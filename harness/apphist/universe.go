// Package apphist holds the shared "application history" machinery used by
// the shuttermint checks (C09-C13): a fixed universe of keys, transaction
// construction, and an independent reference model of shuttermint's
// governance written from docs/spec.md and the property statements.
package apphist

import (
	"crypto/ecdsa"
	"crypto/ed25519"
	"encoding/base64"
	"fmt"

	"github.com/ethereum/go-ethereum/common"
	"github.com/ethereum/go-ethereum/crypto"
	"golang.org/x/crypto/sha3"
	"google.golang.org/protobuf/proto"

	"github.com/shutter-network/rolling-shutter/rolling-shutter/shmsg"
)

// Universe is a fixed set of deterministic keys. Indices 0..NKeypers-1 are
// candidate keypers, the rest are foreign keys that never appear in any
// generated configuration unless a check explicitly promotes them.
type Universe struct {
	Keys    []*ecdsa.PrivateKey
	Addrs   []common.Address
	ValKeys [][]byte // 32-byte ed25519 public keys, several per key index
	EncKeys [][]byte // compressed secp256k1 public keys
}

const ChainID = "verif-chain-1"

func detKey(tag string, i int) *ecdsa.PrivateKey {
	h := crypto.Keccak256([]byte(fmt.Sprintf("verif/%s/%d", tag, i)))
	k, err := crypto.ToECDSA(h)
	if err != nil {
		panic(err)
	}
	return k
}

func NewUniverse(n int) *Universe {
	u := &Universe{}
	for i := 0; i < n; i++ {
		k := detKey("keyper", i)
		u.Keys = append(u.Keys, k)
		u.Addrs = append(u.Addrs, crypto.PubkeyToAddress(k.PublicKey))
	}
	for i := 0; i < 2*n; i++ {
		seed := crypto.Keccak256([]byte(fmt.Sprintf("verif/val/%d", i)))
		pk := ed25519.NewKeyFromSeed(seed).Public().(ed25519.PublicKey)
		u.ValKeys = append(u.ValKeys, []byte(pk))
		ek := detKey("enc", i)
		u.EncKeys = append(u.EncKeys, crypto.CompressPubkey(&ek.PublicKey))
	}
	return u
}

func (u *Universe) Index(a common.Address) int {
	for i, x := range u.Addrs {
		if x == a {
			return i
		}
	}
	return -1
}

// shmsgHashPrefix mirrors the documented signing domain (spec: "signature
// created by the sender over the hash of the encoded message").
var shmsgHashPrefix = []byte{0x19, 's', 'h', 'm', 's', 'g'}

func msgHash(payload []byte) []byte {
	h := sha3.New256()
	h.Write(shmsgHashPrefix)
	h.Write(payload)
	return h.Sum(nil)
}

// SignRaw signs payload bytes (already marshalled MessageWithNonce, or
// garbage) and returns the transaction bytes as shuttermint expects them.
func SignRaw(payload []byte, key *ecdsa.PrivateKey) []byte {
	sig, err := crypto.Sign(msgHash(payload), key)
	if err != nil {
		panic(err)
	}
	return []byte(base64.RawURLEncoding.EncodeToString(append(sig, payload...)))
}

// MakeTx builds a correctly signed transaction.
func (u *Universe) MakeTx(sender int, chainID string, nonce uint64, msg *shmsg.Message) []byte {
	mwn := &shmsg.MessageWithNonce{Msg: msg, ChainId: []byte(chainID), RandomNonce: nonce}
	payload, err := proto.MarshalOptions{Deterministic: true}.Marshal(mwn)
	if err != nil {
		panic(err)
	}
	return SignRaw(payload, u.Keys[sender])
}

// Decoded is what an independent decoder (primitives only) makes of a
// transaction byte string.
type Decoded struct {
	OK     bool
	Signer common.Address
	Msg    *shmsg.MessageWithNonce
}

// Decode re-implements the documented wire format with library primitives
// (base64, secp256k1 recovery, protobuf) so that the model never calls the
// application's own decoder.
func Decode(tx []byte) Decoded {
	raw, err := base64.RawURLEncoding.DecodeString(string(tx))
	if err != nil || len(raw) < 65 {
		return Decoded{}
	}
	pub, err := crypto.SigToPub(msgHash(raw[65:]), raw[:65])
	if err != nil {
		return Decoded{}
	}
	m := &shmsg.MessageWithNonce{}
	if err := proto.Unmarshal(raw[65:], m); err != nil {
		return Decoded{}
	}
	return Decoded{OK: true, Signer: crypto.PubkeyToAddress(*pub), Msg: m}
}
