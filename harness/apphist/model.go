package apphist

// Reference model of shuttermint's governance, written from docs/spec.md and
// the statements of C10-C12. It never calls into package app.

import (
	"bytes"
	"fmt"
	"sort"
	"strings"

	"github.com/ethereum/go-ethereum/common"
	"github.com/ethereum/go-ethereum/crypto"
	blst "github.com/supranational/blst/bindings/go"

	"github.com/shutter-network/rolling-shutter/rolling-shutter/shmsg"
)

const (
	CodeOK    uint32 = 0
	CodeError uint32 = 1
	CodeSeen  uint32 = 2
)

const MaxTxsPerBlock = 10 // "a limit defined by a constant" (spec); value from the mempool rule

type MConfig struct {
	Keypers           []common.Address
	Threshold         uint64
	Activation        uint64
	Index             uint64
	Started           bool
	ValidatorsUpdated bool
}

func (c *MConfig) Has(a common.Address) bool {
	for _, k := range c.Keypers {
		if k == a {
			return true
		}
	}
	return false
}

func (c *MConfig) Key() string {
	var sb strings.Builder
	fmt.Fprintf(&sb, "%d/%d/%d/", c.Activation, c.Threshold, c.Index)
	for _, k := range c.Keypers {
		sb.WriteString(k.Hex())
		sb.WriteByte(',')
	}
	return sb.String()
}

type MDKG struct {
	Eon       uint64
	Cfg       MConfig // copy at start time
	Votes     map[common.Address]bool
	VoteOrder []bool // distinct voted values in first-vote order
	Evals     map[[2]common.Address]bool
	Commits   map[common.Address]bool
	Accs      map[common.Address]bool
	Apols     map[common.Address]bool
}

// Ev is a predicted (or decoded) event: type plus attribute map.
type Ev struct {
	Type  string
	Attrs map[string]string
}

func (e Ev) String() string {
	keys := make([]string, 0, len(e.Attrs))
	for k := range e.Attrs {
		keys = append(keys, k)
	}
	sort.Strings(keys)
	var sb strings.Builder
	sb.WriteString(e.Type)
	sb.WriteByte('{')
	for _, k := range keys {
		fmt.Fprintf(&sb, "%s=%s;", k, e.Attrs[k])
	}
	sb.WriteByte('}')
	return sb.String()
}

// Pred is the model's prediction for one DeliverTx.
type Pred struct {
	Codes     []uint32 // allowed response codes (more than one only where the order of two failing checks is unspecified)
	Events    []Ev
	Ambiguous bool   // outcome legitimately not determined by the statement (two tallies over threshold)
	Note      string // which rule decided
}

func (p Pred) Allows(code uint32) bool {
	for _, c := range p.Codes {
		if c == code {
			return true
		}
	}
	return false
}

type Model struct {
	ChainID       string
	Configs       []*MConfig
	CfgVotes      map[common.Address]string // current round: sender -> config key
	CfgVoteCount  map[string]int
	EonCounter    uint64
	DKGs          map[uint64]*MDKG
	Identities    map[common.Address]string // validator key bytes as string
	BlocksSeen    map[common.Address]uint64
	Nonces        map[common.Address]map[uint64]bool
	Genesis       map[string]int64 // genesis validators
	ForkEnabled   bool
	ForkHeight    int64
	Height        int64 // last finished block
	chkCounts     map[common.Address]int
	chkNonces     map[common.Address]map[uint64]bool
	EonsStarted   []uint64 // every eon number ever started, in order
	RestartedEons map[uint64]bool

	// statistics for "non-trivial" rules
	SplitTally   int // times a tally had two values at or over the threshold when consulted
	Replays      int
	Restarts     int
	CfgAccepted  int
	VoteSplits   int // config voting rounds with >=2 distinct candidates
	ForeignTx    int
	ValChanges   int
}

func NewModel(chainID string, keypers []common.Address, threshold uint64, initialEon uint64, genesisVals map[string]int64, forkEnabled bool, forkHeight int64) *Model {
	m := &Model{
		ChainID: chainID, CfgVotes: map[common.Address]string{}, CfgVoteCount: map[string]int{},
		EonCounter: initialEon, DKGs: map[uint64]*MDKG{}, Identities: map[common.Address]string{},
		BlocksSeen: map[common.Address]uint64{}, Nonces: map[common.Address]map[uint64]bool{},
		Genesis: genesisVals, ForkEnabled: forkEnabled, ForkHeight: forkHeight,
		chkCounts: map[common.Address]int{}, chkNonces: map[common.Address]map[uint64]bool{},
		RestartedEons: map[uint64]bool{},
	}
	m.Configs = []*MConfig{{Keypers: append([]common.Address{}, keypers...), Threshold: threshold}}
	return m
}

func (m *Model) Last() *MConfig { return m.Configs[len(m.Configs)-1] }

func (m *Model) IsMemberAny(a common.Address) bool {
	for _, c := range m.Configs {
		if c.Has(a) {
			return true
		}
	}
	return false
}

// ForkEonOverrides: the deployed networks whose check-in update fork is tied to an eon number instead of
// the genesis fork height (app/forks.go documents the rule: with an override the genesis height does not
// count at all). Kept here as data of the reference model, not read from the application.
var ForkEonOverrides = map[string]uint64{
	"shutter-gnosis-1000":         9,
	"shutter-chiado-102000":       13,
	"shutter-api-gnosis-1001":     13,
	"shutter-service-chiado-1000": 9,
	"shutter-api-gnosis-1002":     0,
}

func (m *Model) forkActive() bool {
	if eon, ok := ForkEonOverrides[m.ChainID]; ok {
		return m.EonCounter >= eon
	}
	return m.ForkEnabled && m.Height+1 >= m.ForkHeight
}

func (m *Model) nonceUsed(a common.Address, n uint64) bool { return m.Nonces[a][n] }

// CheckTx predicts the mempool verdict and updates the per-block mempool state.
func (m *Model) CheckTx(d Decoded) uint32 {
	if !d.OK {
		return 1
	}
	if string(d.Msg.ChainId) != m.ChainID {
		return 1
	}
	if m.nonceUsed(d.Signer, d.Msg.RandomNonce) {
		return 1
	}
	if !m.IsMemberAny(d.Signer) {
		return 1
	}
	if m.chkCounts[d.Signer] >= MaxTxsPerBlock {
		return 1
	}
	if m.chkNonces[d.Signer][d.Msg.RandomNonce] {
		return 1
	}
	m.chkCounts[d.Signer]++
	if m.chkNonces[d.Signer] == nil {
		m.chkNonces[d.Signer] = map[uint64]bool{}
	}
	m.chkNonces[d.Signer][d.Msg.RandomNonce] = true
	return 0
}

func (m *Model) Commit() {
	m.chkCounts = map[common.Address]int{}
	m.chkNonces = map[common.Address]map[uint64]bool{}
}

func errPred(note string) Pred  { return Pred{Codes: []uint32{CodeError}, Note: note} }
func seenPred(note string) Pred { return Pred{Codes: []uint32{CodeSeen}, Note: note} }
func okPred(note string, evs ...Ev) Pred {
	return Pred{Codes: []uint32{CodeOK}, Events: evs, Note: note}
}

func uintS(v uint64) string { return fmt.Sprintf("%d", v) }

func addrsS(as []common.Address) string {
	var s []string
	for _, a := range as {
		s = append(s, strings.ToLower(a.Hex()))
	}
	return strings.Join(s, ",")
}

func bytesSeqS(bs [][]byte) string {
	var s []string
	for _, b := range bs {
		s = append(s, fmt.Sprintf("0x%x", b))
	}
	return strings.Join(s, ",")
}

func parseAddrs(raw [][]byte) ([]common.Address, bool) {
	var res []common.Address
	seen := map[common.Address]bool{}
	for _, b := range raw {
		if len(b) != 20 {
			return nil, false
		}
		a := common.BytesToAddress(b)
		if seen[a] {
			return nil, false
		}
		seen[a] = true
		res = append(res, a)
	}
	return res, true
}

// DeliverTx predicts the response to a transaction included in a block and
// applies its effect to the model.
func (m *Model) DeliverTx(d Decoded) Pred {
	if !d.OK {
		return errPred("undecodable")
	}
	if string(d.Msg.ChainId) != m.ChainID {
		return errPred("wrong chain")
	}
	if m.nonceUsed(d.Signer, d.Msg.RandomNonce) {
		m.Replays++
		return errPred("replay")
	}
	if m.Nonces[d.Signer] == nil {
		m.Nonces[d.Signer] = map[uint64]bool{}
	}
	m.Nonces[d.Signer][d.Msg.RandomNonce] = true
	if !m.IsMemberAny(d.Signer) {
		m.ForeignTx++
	}
	msg := d.Msg.Msg
	s := d.Signer
	switch {
	case msg.GetBatchConfig() != nil:
		return m.deliverBatchConfig(msg.GetBatchConfig(), s)
	case msg.GetBlockSeen() != nil:
		return m.deliverBlockSeen(msg.GetBlockSeen(), s)
	case msg.GetCheckIn() != nil:
		return m.deliverCheckIn(msg.GetCheckIn(), s)
	case msg.GetDkgResult() != nil:
		return m.deliverDKGResult(msg.GetDkgResult(), s)
	case msg.GetPolyEval() != nil:
		return m.deliverPolyEval(msg.GetPolyEval(), s)
	case msg.GetPolyCommitment() != nil:
		return m.deliverPolyCommitment(msg.GetPolyCommitment(), s)
	case msg.GetAccusation() != nil:
		return m.deliverAccusation(msg.GetAccusation(), s)
	case msg.GetApology() != nil:
		return m.deliverApology(msg.GetApology(), s)
	}
	return errPred("no payload")
}

func (m *Model) startDKG(cfg *MConfig) *MDKG {
	m.EonCounter++
	d := &MDKG{
		Eon: m.EonCounter, Cfg: *cfg, Votes: map[common.Address]bool{},
		Evals: map[[2]common.Address]bool{}, Commits: map[common.Address]bool{},
		Accs: map[common.Address]bool{}, Apols: map[common.Address]bool{},
	}
	d.Cfg.Keypers = append([]common.Address{}, cfg.Keypers...)
	m.DKGs[d.Eon] = d
	m.EonsStarted = append(m.EonsStarted, d.Eon)
	return d
}

func eonStartedEv(eon uint64, c *MConfig) Ev {
	return Ev{"shutter.eon-started", map[string]string{
		"Eon": uintS(eon), "ActivationBlockNumber": uintS(c.Activation), "KeyperConfigIndex": uintS(c.Index),
	}}
}

func (m *Model) deliverBatchConfig(bc *shmsg.BatchConfig, s common.Address) Pred {
	keypers, ok := parseAddrs(bc.Keypers)
	if !ok {
		return errPred("malformed keypers")
	}
	cand := &MConfig{Keypers: keypers, Threshold: bc.Threshold, Activation: bc.ActivationBlockNumber, Index: bc.KeyperConfigIndex}
	last := m.Last()
	// A vote for the configuration that is already the last accepted one is
	// acknowledged as "seen" (the vote of a keyper that is late).
	// Once that configuration has been started the statement leaves open
	// whether the answer is "seen" or an error; either way nothing changes.
	if cand.Key() == last.Key() {
		return Pred{Codes: []uint32{CodeSeen, CodeError}, Note: "config already accepted"}
	}
	if len(keypers) == 0 || bc.Threshold == 0 || bc.Threshold > uint64(len(keypers)) {
		return errPred("invalid config")
	}
	if cand.Activation < last.Activation || cand.Index <= last.Index {
		return errPred("index/activation not monotone")
	}
	if !last.Has(s) {
		return errPred("sender not in last config")
	}
	if _, voted := m.CfgVotes[s]; voted {
		return errPred("already voted")
	}
	key := cand.Key()
	if len(m.CfgVoteCount) >= 1 && m.CfgVoteCount[key] == 0 {
		m.VoteSplits++
	}
	m.CfgVotes[s] = key
	m.CfgVoteCount[key]++
	if uint64(m.CfgVoteCount[key]) >= last.Threshold {
		m.CfgVotes = map[common.Address]string{}
		m.CfgVoteCount = map[string]int{}
		m.Configs = append(m.Configs, cand)
		m.CfgAccepted++
		d := m.startDKG(cand)
		return okPred("config accepted",
			Ev{"shutter.batch-config", map[string]string{
				"ActivationBlockNumber": uintS(cand.Activation), "Threshold": uintS(cand.Threshold),
				"Keypers": addrsS(cand.Keypers), "ConfigIndex": uintS(cand.Index),
			}},
			eonStartedEv(d.Eon, cand))
	}
	return okPred("vote recorded")
}

func (m *Model) deliverBlockSeen(bs *shmsg.BlockSeen, s common.Address) Pred {
	// spec, "Nonce Handling And Spam Protection": only senders that are part of
	// a keyper set in any accepted config are served
	if !m.IsMemberAny(s) {
		return errPred("not a keyper")
	}
	if bs.BlockNumber > m.BlocksSeen[s] {
		m.BlocksSeen[s] = bs.BlockNumber
	}
	return okPred("block seen")
}

func (m *Model) deliverCheckIn(ci *shmsg.CheckIn, s common.Address) Pred {
	_, already := m.Identities[s]
	if !m.forkActive() && already {
		return seenPred("already checked in")
	}
	if !m.IsMemberAny(s) {
		return errPred("not a keyper")
	}
	if len(ci.ValidatorPublicKey) != 32 {
		return errPred("bad validator key")
	}
	pub, err := crypto.DecompressPubkey(ci.EncryptionPublicKey)
	if err != nil {
		return errPred("bad encryption key")
	}
	m.Identities[s] = string(ci.ValidatorPublicKey)
	return okPred("checked in", Ev{"shutter.check-in", map[string]string{
		"Sender":              strings.ToLower(s.Hex()),
		"EncryptionPublicKey": fmt.Sprintf("%x", crypto.FromECDSAPub(pub)),
	}})
}

func (m *Model) deliverDKGResult(r *shmsg.DKGResult, s common.Address) Pred {
	d, ok := m.DKGs[r.Eon]
	if !ok {
		return errPred("unknown eon")
	}
	if !d.Cfg.Has(s) {
		return errPred("not keyper of eon")
	}
	if _, voted := d.Votes[s]; voted {
		return seenPred("already voted")
	}
	d.Votes[s] = r.Success
	found := false
	for _, v := range d.VoteOrder {
		if v == r.Success {
			found = true
		}
	}
	if !found {
		d.VoteOrder = append(d.VoteOrder, r.Success)
	}
	nTrue, nFalse := 0, 0
	for _, v := range d.Votes {
		if v {
			nTrue++
		} else {
			nFalse++
		}
	}
	t := int(d.Cfg.Threshold)
	newest := m.EonCounter == r.Eon
	p := okPred("result vote")
	if nFalse >= t && newest {
		if nTrue >= t {
			// Both outcomes have a threshold behind them. The statement only
			// says a restart needs a threshold of failure reports on the
			// newest eon; whether it happens here is not determined.
			m.SplitTally++
			p.Ambiguous = true
			p.Note = "split tally"
			return p
		}
		m.Restarts++
		m.RestartedEons[r.Eon] = true
		nd := m.startDKG(&d.Cfg)
		p.Events = []Ev{eonStartedEv(nd.Eon, &d.Cfg)}
		p.Note = "restart"
		return p
	}
	if nFalse >= t && nTrue >= t {
		m.SplitTally++
	}
	return p
}

// ResolveAmbiguousRestart is called by the harness after an ambiguous
// DKGResult prediction with what the application actually did.
func (m *Model) ResolveAmbiguousRestart(eon uint64, restarted bool) Ev {
	if !restarted {
		return Ev{}
	}
	d := m.DKGs[eon]
	m.Restarts++
	m.RestartedEons[eon] = true
	nd := m.startDKG(&d.Cfg)
	return eonStartedEv(nd.Eon, &d.Cfg)
}

func (m *Model) deliverPolyEval(pe *shmsg.PolyEval, s common.Address) Pred {
	if len(pe.Receivers) != len(pe.EncryptedEvals) {
		return errPred("length mismatch")
	}
	recv, ok := parseAddrs(pe.Receivers)
	if !ok {
		return errPred("malformed receivers")
	}
	d, ok := m.DKGs[pe.Eon]
	if !ok {
		return errPred("unknown eon")
	}
	if !d.Cfg.Has(s) {
		return errPred("sender not keyper")
	}
	bad, seen := false, false
	for _, r := range recv {
		if !d.Cfg.Has(r) || r == s {
			bad = true
		}
		if d.Evals[[2]common.Address{s, r}] {
			seen = true
		}
	}
	switch {
	case bad && seen:
		return Pred{Codes: []uint32{CodeError, CodeSeen}, Note: "bad receiver and duplicate"}
	case bad:
		return errPred("bad receiver")
	case seen:
		return seenPred("eval already present")
	}
	for _, r := range recv {
		d.Evals[[2]common.Address{s, r}] = true
	}
	return okPred("poly eval", Ev{"shutter.poly-eval-registered", map[string]string{
		"Sender": strings.ToLower(s.Hex()), "Eon": uintS(pe.Eon), "Receivers": addrsS(recv),
		"EncryptedEvals": bytesSeqS(pe.EncryptedEvals),
	}})
}

func validGamma(g []byte) bool {
	if len(g) != 96 {
		return false
	}
	p := new(blst.P2Affine).Uncompress(g)
	return p != nil && p.InG2()
}

func (m *Model) deliverPolyCommitment(pc *shmsg.PolyCommitment, s common.Address) Pred {
	var all []byte
	for _, g := range pc.Gammas {
		if !validGamma(g) {
			return errPred("invalid gamma")
		}
		all = append(all, g...)
	}
	d, ok := m.DKGs[pc.Eon]
	if !ok {
		return errPred("unknown eon")
	}
	if !d.Cfg.Has(s) {
		return errPred("sender not keyper")
	}
	if d.Commits[s] {
		return seenPred("commitment already present")
	}
	d.Commits[s] = true
	return okPred("poly commitment", Ev{"shutter.poly-commitment-registered", map[string]string{
		"Sender": strings.ToLower(s.Hex()), "Eon": uintS(pc.Eon), "Gammas": fmt.Sprintf("%x", all),
	}})
}

func (m *Model) deliverAccusation(ac *shmsg.Accusation, s common.Address) Pred {
	accused, ok := parseAddrs(ac.Accused)
	if !ok {
		return errPred("malformed accused")
	}
	d, ok := m.DKGs[ac.Eon]
	if !ok {
		return errPred("unknown eon")
	}
	if !d.Cfg.Has(s) {
		return errPred("sender not keyper")
	}
	for _, a := range accused {
		if !d.Cfg.Has(a) || a == s {
			return errPred("bad accused")
		}
	}
	if d.Accs[s] {
		return seenPred("accusation already present")
	}
	d.Accs[s] = true
	return okPred("accusation", Ev{"shutter.accusation-registered", map[string]string{
		"Sender": strings.ToLower(s.Hex()), "Eon": uintS(ac.Eon), "Accused": addrsS(accused),
	}})
}

func (m *Model) deliverApology(ap *shmsg.Apology, s common.Address) Pred {
	if len(ap.Accusers) != len(ap.PolyEvals) {
		return errPred("length mismatch")
	}
	accusers, ok := parseAddrs(ap.Accusers)
	if !ok {
		return errPred("malformed accusers")
	}
	d, ok := m.DKGs[ap.Eon]
	if !ok {
		return errPred("unknown eon")
	}
	if !d.Cfg.Has(s) {
		return errPred("sender not keyper")
	}
	for _, a := range accusers {
		if !d.Cfg.Has(a) || a == s {
			return errPred("bad accuser")
		}
	}
	if d.Apols[s] {
		return seenPred("apology already present")
	}
	d.Apols[s] = true
	// evaluations travel as big-endian integers: leading zero bytes are not significant
	var evals [][]byte
	for _, b := range ap.PolyEvals {
		evals = append(evals, bytes.TrimLeft(b, "\x00"))
	}
	return okPred("apology", Ev{"shutter.apology-registered", map[string]string{
		"Sender": strings.ToLower(s.Hex()), "Eon": uintS(ap.Eon), "Accusers": addrsS(accusers),
		"PolyEvals": bytesSeqS(evals),
	}})
}

// RequiredCheckIns is the check-in quorum of C12: max(t, n-ceil(n/3)+1).
func RequiredCheckIns(c *MConfig) uint64 {
	n := uint64(len(c.Keypers))
	if n == 0 {
		return 0
	}
	q := n - (n+2)/3 + 1
	if c.Threshold > q {
		return c.Threshold
	}
	return q
}

func (m *Model) checkedIn(c *MConfig) uint64 {
	var n uint64
	for _, k := range c.Keypers {
		if _, ok := m.Identities[k]; ok {
			n++
		}
	}
	return n
}

// PlaceholderKey is the artificial validator key documented for keypers that
// have not checked in.
var PlaceholderKey = func() string {
	k := [32]byte{'n', 'o', 'v', 'a', 'l', 'i', 'd', 'a', 't', 'o', 'r'}
	return string(k[:])
}()

// EndBlock predicts the events of the block end and returns the validator
// set the application is supposed to intend from now on.
func (m *Model) EndBlock(height int64) (events []Ev, intended map[string]int64) {
	for i, c := range m.Configs {
		if !c.Started {
			prev := m.Configs[0]
			if i > 0 {
				prev = m.Configs[i-1]
			}
			var votes uint64
			for _, k := range prev.Keypers {
				b, ok := m.BlocksSeen[k]
				if ok && b >= c.Activation {
					votes++
				}
			}
			if votes >= prev.Threshold {
				c.Started = true
				events = append(events, Ev{"shutter.batch-config-started", map[string]string{"ConfigIndex": uintS(c.Index)}})
			}
		}
		if c.Started && !c.ValidatorsUpdated && m.checkedIn(c) >= RequiredCheckIns(c) {
			c.ValidatorsUpdated = true
		}
	}
	m.Height = height
	return events, m.Intended()
}

func (m *Model) Intended() map[string]int64 {
	for i := len(m.Configs) - 1; i >= 0; i-- {
		c := m.Configs[i]
		if c.Started && c.ValidatorsUpdated {
			pm := map[string]int64{}
			for _, k := range c.Keypers {
				if id, ok := m.Identities[k]; ok {
					pm[id] += 10
				} else {
					pm[PlaceholderKey] += 10
				}
			}
			return pm
		}
	}
	res := map[string]int64{}
	for k, v := range m.Genesis {
		res[k] = v
	}
	return res
}

// CheckedInPowerShare returns (power held by checked-in keypers' keys, total)
// for the newest configuration that determines the validator set.
func (m *Model) CheckedInPowerShare() (int64, int64, bool) {
	for i := len(m.Configs) - 1; i >= 0; i-- {
		c := m.Configs[i]
		if c.Started && c.ValidatorsUpdated {
			var in, total int64
			for _, k := range c.Keypers {
				total += 10
				if _, ok := m.Identities[k]; ok {
					in += 10
				}
			}
			return in, total, true
		}
	}
	return 0, 0, false
}
