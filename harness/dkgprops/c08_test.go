package dkgprops

// C08 - a keyper survives a crash at any instant (fault enumeration).
//
// Scenario: the all-honest DKG of C07 (n=3, t=2, L=8, plain fair schedule:
// every keyper one sync+onchain+send iteration per block, in position order).
// One keyper is the victim. A crash-free reference run records every
// client->database round trip of the victim (class, block) and every accepted
// broadcast. A crash case kills the victim at one of these points:
//   db:k:before  - connection lost before round trip k reaches the database
//   db:k:after   - round trip k executed (a COMMIT is applied) but the reply is lost
//   rpc:j        - the j-th accepted BroadcastTxCommit returned, the process
//                  dies before the outbox row is deleted
// "Dies" = the iteration is abandoned at the first error (what
// keyper.operateShuttermint does: it returns the error and the process
// exits), the pool is closed (pgfake rolls back the open transaction), every
// in-memory object is dropped; a new pool, ShuttermintState, RPCMessageSender
// and client are created on the same database before the victim's next turn.

import (
	"bytes"
	"context"
	"encoding/json"
	"fmt"
	"os"
	"sort"
	"strings"
	"testing"

	"github.com/ethereum/go-ethereum/common"
	"github.com/ethereum/go-ethereum/crypto/ecies"
	"google.golang.org/protobuf/proto"

	"github.com/shutter-network/shutter/shlib/shcrypto"

	"github.com/shutter-network/rolling-shutter/rolling-shutter/shdb"
	"github.com/shutter-network/rolling-shutter/rolling-shutter/shmsg"
	"verif/harness/pgfake"
)

// sigReloadPending names the defect class "DKG state reloaded from the
// database while commitments/evals are outstanding" (see KNOWN_FINDINGS).
const sigReloadPending = "smobserver/reload-of-stored-dkg-with-outstanding-messages:rejects-them-as-duplicates"

// sigPersistedMemory: the state oracle "persisted == memory at every commit point".
const sigPersistedMemory = "persisted-dkg-state-differs-from-memory"

type crashSentinelT struct{}

var crashSentinel = &crashSentinelT{}

// unitInfo classifies one client->database round trip of the victim.
type unitInfo struct {
	Class  string // sync-poll, block-begin, block-tx, block-commit, onchain-begin, onchain-tx, onchain-commit, send-fetch, send-delete, send-poll
	Open   int64  // open chain height when it happened
	Events bool   // block-*: the block being applied carries events
	// Pending: at the start of this iteration the victim's database holds a DKG
	// in progress that has not yet seen every commitment and eval (a reload of
	// the stored state at such a moment is the class of known finding
	// sigReloadPending)
	Pending bool
	// BlockSeenDue: the iteration's on-chain-changes transaction queues a
	// "block seen" report (reference run semantics, like Pending)
	BlockSeenDue bool
}

type crashPoint struct {
	Kind  string // "db" or "rpc"
	K     int    // round trip number (1-based, relative to the start of the run) or broadcast number
	After bool   // db: reply lost after execution
	Rel   bool   // K counts from the moment the crash is armed (second crash of a pair: from the restart)
}

func (c crashPoint) String() string {
	rel := ""
	if c.Rel {
		rel = "+"
	}
	if c.Kind == "rpc" {
		return fmt.Sprintf("rpc:%s%d", rel, c.K)
	}
	if c.After {
		return fmt.Sprintf("db:%s%d:after", rel, c.K)
	}
	return fmt.Sprintf("db:%s%d:before", rel, c.K)
}

// victimTracer instruments the victim: classification of round trips in every
// run, fault arming and crash detection in crash runs.
type victimTracer struct {
	r      *Run
	victim int
	base   int64 // victim server's RoundTrips() at the start of the run
	units  []unitInfo
	bcasts []string // kind of every accepted broadcast, in order

	plan                   []crashPoint        // crashes still to inject, in order
	armedRPC               int                 // accepted-broadcast number at which to die (0 = none)
	armedAt                int64               // db: relative round-trip number of the armed fault
	crashes                []string            // what happened
	zombie                 int                 // round trips the dying process still made after the fault fired
	polys                  map[uint64][]string // per eon: distinct stored polynomials seen (hex of gammas)
	polyEvals              map[uint64]map[int]string
	problems               []string // oracle (3) violations noticed while the run goes on
	crashOpen              []int64
	planLeft               int // crash points not reached when the scheduled part of the run ended
	blockSeenLost          bool
	sawSameDesc            bool // at some broadcast the outbox held two rows with the same description
	crashedBeforeRetry     bool // some crash happened after the batch-config block and before the retry's EonStarted, no batch config started
	crashedEvalsWaiting    bool // some crash happened while evaluations of the victim waited in poly_evals for a receiver's check-in
	crashedMidRange        bool // some crash fell between the block transactions of one multi-block sync range
	crashedMidRangeDKG     bool // ... and a block already committed in that range changes the DKG state
	crashedAfterCommitOnly bool // some crash happened while the last DKG-relevant block applied carried only commitments
	crashedPending         bool // some crash happened while a DKG with outstanding commitments/evals was stored
}

// dkgRelevant: applying block h changes the victim's DKG state (eon start,
// phase change, commitment, eval addressed to the victim, accusation, apology).
func (vt *victimTracer) dkgRelevant(h int64) bool {
	r := vt.r
	if r.h0 == 0 || h < r.h0 || h > r.h0+3*r.sc.L {
		return false
	}
	L := r.sc.L
	if h == r.h0 || h == r.h0+L || h == r.h0+2*L || h == r.h0+3*L {
		return true
	}
	b := r.chain.Block(h)
	if b == nil {
		return false
	}
	me := vt.node().Addr
	for _, tx := range b.Txs {
		if tx.Code != 0 || tx.Msg == nil {
			continue
		}
		switch {
		case tx.Msg.GetPolyCommitment() != nil, tx.Msg.GetAccusation() != nil, tx.Msg.GetApology() != nil:
			return true
		case tx.Msg.GetPolyEval() != nil && tx.Signer != me:
			for _, rc := range tx.Msg.GetPolyEval().Receivers {
				if common.BytesToAddress(rc) == me {
					return true
				}
			}
		}
	}
	return false
}

// afterCommitmentOnlyBlock: the newest block the victim has applied that
// touches its DKG state at all carried nothing but polynomial commitments (no
// eval addressed to the victim, no accusation, no apology, no phase change) -
// the commitments of that block exist nowhere but in the puredkg row that the
// block's own transaction wrote.
func (vt *victimTracer) afterCommitmentOnlyBlock() bool {
	r := vt.r
	r.observe()
	if r.h0 == 0 {
		return false
	}
	n := vt.node()
	L := r.sc.L
	for h := n.syncedTo(); h >= r.h0; h-- {
		b := r.chain.Block(h)
		if b == nil {
			continue
		}
		if h == r.h0 || h == r.h0+L || h == r.h0+2*L || h == r.h0+3*L {
			return false
		}
		commit, other := false, false
		for _, tx := range b.Txs {
			if tx.Code != 0 || tx.Msg == nil {
				continue
			}
			switch {
			case tx.Msg.GetPolyCommitment() != nil && tx.Msg.GetPolyCommitment().Eon == r.eon:
				commit = true
			case tx.Msg.GetPolyEval() != nil && tx.Msg.GetPolyEval().Eon == r.eon && tx.Signer != n.Addr:
				for _, rc := range tx.Msg.GetPolyEval().Receivers {
					if common.BytesToAddress(rc) == n.Addr {
						other = true
					}
				}
			case tx.Msg.GetAccusation() != nil && tx.Msg.GetAccusation().Eon == r.eon,
				tx.Msg.GetApology() != nil && tx.Msg.GetApology().Eon == r.eon:
				other = true
			}
		}
		if other {
			return false
		}
		if commit {
			return h < r.h0+3*L // after finalization there is no DKG state left
		}
	}
	return false
}

// pendingDKG: the victim's database holds the DKG state of the eon and the
// blocks it has applied so far do not yet contain every keyper's commitment
// and every eval addressed to the victim.
func (vt *victimTracer) pendingDKG() bool {
	r := vt.r
	r.observe()
	if r.h0 == 0 {
		return false
	}
	n := vt.node()
	has := false
	for _, row := range n.Srv.Rows("puredkg") {
		if uint64(row["eon"].(int64)) == r.eon {
			has = true
		}
	}
	if !has {
		return false
	}
	synced := n.syncedTo()
	commits, evals := 0, 0
	for _, tx := range r.chain.AllTxs {
		if tx.Code != 0 || tx.Msg == nil || tx.Height > synced {
			continue
		}
		if pc := tx.Msg.GetPolyCommitment(); pc != nil && pc.Eon == r.eon {
			commits++
		}
		if pe := tx.Msg.GetPolyEval(); pe != nil {
			for _, rc := range pe.Receivers {
				if common.BytesToAddress(rc) == n.Addr {
					evals++
				}
			}
		}
	}
	return commits < r.sc.N || evals < r.sc.N-1
}

func (vt *victimTracer) node() *Node { return vt.r.nodes[vt.victim] }

func (vt *victimTracer) rel() int64 { return vt.node().Srv.RoundTrips() - vt.base }

// arm installs the next planned crash.
func (vt *victimTracer) arm() {
	vt.armedRPC = 0
	vt.node().Srv.SetFault(0, pgfake.FaultNone)
	if len(vt.plan) == 0 {
		return
	}
	p := vt.plan[0]
	switch p.Kind {
	case "db":
		f := pgfake.FaultDropBefore
		if p.After {
			f = pgfake.FaultDropAfter
		}
		vt.armedAt = int64(p.K)
		if p.Rel {
			vt.armedAt += vt.rel()
		}
		vt.node().Srv.SetFault(vt.base+vt.armedAt, f)
	case "rpc":
		vt.armedRPC = p.K
		if p.Rel {
			vt.armedRPC += len(vt.bcasts)
		}
	}
}

func (vt *victimTracer) instrument() {
	n := vt.node()
	n.Client.AfterDeliver = func(rec *TxRec) {
		vt.bcasts = append(vt.bcasts, msgKind(rec))
		if vt.armedRPC > 0 && len(vt.bcasts) == vt.armedRPC {
			panic(crashSentinel)
		}
	}
}

// step replaces Node.step for the victim.
func (vt *victimTracer) step(r *Run, n *Node, budget int) error {
	if n.Pos != vt.victim {
		return n.step(r.ctx, r.curL1(), budget)
	}
	n.Client.SendBudget = budget
	open := r.chain.OpenHeight()
	var marks []int64     // round-trip counter at every BlockResults call
	var markEv []bool     // whether that block carries events
	var sendMarks []int64 // round-trip counter right after every accepted broadcast
	n.Client.Trace = func(m string) {
		if m == "BlockResults" {
			marks = append(marks, vt.rel())
			markEv = append(markEv, false)
		}
	}
	prevAfter := n.Client.AfterDeliver
	n.Client.AfterDeliver = func(rec *TxRec) {
		if !vt.sawSameDesc {
			seen := map[string]bool{}
			for _, row := range n.Srv.Rows("tendermint_outgoing_messages") {
				d, _ := row["description"].(string)
				if seen[d] {
					vt.sawSameDesc = true
				}
				seen[d] = true
			}
		}
		sendMarks = append(sendMarks, vt.rel())
		prevAfter(rec)
	}
	defer func() { n.Client.AfterDeliver = prevAfter; n.Client.Trace = nil }()

	pendingBefore := vt.pendingDKG()
	parts := n.stepParts(r.ctx, r.curL1())
	bounds := []int64{vt.rel()}
	var stepErr error
	crashed := false
	blockSeenRows := func() int {
		c := 0
		for _, row := range n.Srv.Rows("tendermint_outgoing_messages") {
			if d, _ := row["description"].(string); strings.HasPrefix(d, "block seen") {
				c++
			}
		}
		return c
	}
	blockSeenBefore, blockSeenDue := 0, false
	for i, part := range parts {
		if i == 1 {
			blockSeenBefore = blockSeenRows()
		}
		err := guarded(part)
		if i == 1 && blockSeenRows() > blockSeenBefore {
			blockSeenDue = true
		}
		bounds = append(bounds, vt.rel())
		if sp, ok := err.(*stepPanic); ok && sp.v == crashSentinel {
			crashed = true
			vt.crashes = append(vt.crashes, fmt.Sprintf("%s in %s at open height %d", vt.plan[0], partNames[i], open))
			break
		}
		if n.Srv.FaultFired() {
			crashed = true
			vt.zombie += int(vt.rel() - vt.armedAt)
			vt.crashes = append(vt.crashes, fmt.Sprintf("%s in %s at open height %d (err=%v)", vt.plan[0], partNames[i], open, err != nil))
			break
		}
		if err != nil {
			stepErr = fmt.Errorf("%s: %w", partNames[i], err)
			break
		}
	}
	// classification of this iteration's round trips
	for len(bounds) < 4 {
		bounds = append(bounds, bounds[len(bounds)-1])
	}
	for u := bounds[0] + 1; u <= bounds[3]; u++ {
		info := unitInfo{Open: open, Pending: pendingBefore || vt.pendingDKG()}
		switch {
		case u <= bounds[1]: // sync
			if len(marks) == 0 || u <= marks[0] {
				info.Class = "sync-poll"
			} else {
				bi := sort.Search(len(marks), func(i int) bool { return marks[i] >= u }) - 1
				first := marks[bi] + 1
				last := bounds[1]
				if bi+1 < len(marks) {
					last = marks[bi+1]
				}
				h := n.syncedBefore + int64(bi) + 1
				if b := r.chain.Block(h); b != nil {
					info.Events = len(b.Begin.Events)+len(b.End.Events) > 0
					for _, tx := range b.Txs {
						if len(tx.Events) > 0 {
							info.Events = true
						}
					}
				}
				switch u {
				case first:
					info.Class = "block-begin"
				case last:
					info.Class = "block-commit"
				default:
					info.Class = "block-tx"
				}
			}
		case u <= bounds[2]: // onchain
			info.BlockSeenDue = blockSeenDue
			switch u {
			case bounds[1] + 1:
				info.Class = "onchain-begin"
			case bounds[2]:
				info.Class = "onchain-commit"
			default:
				info.Class = "onchain-tx"
			}
		default: // send
			info.Class = "send-fetch"
			for _, m := range sendMarks {
				if u == m+1 {
					info.Class = "send-delete"
				}
			}
			if u == bounds[3] && info.Class == "send-fetch" && !crashed {
				info.Class = "send-poll"
			}
		}
		vt.units = append(vt.units, info)
	}
	startedAt := n.syncedBefore // highest block applied before this iteration
	n.syncedBefore = n.syncedTo()
	if crashed {
		if pendingBefore || vt.pendingDKG() {
			vt.crashedPending = true
		}
		if vt.afterCommitmentOnlyBlock() {
			vt.crashedAfterCommitOnly = true
		}
		if len(n.Srv.Rows("poly_evals")) > 0 {
			vt.crashedEvalsWaiting = true
		}
		if r.sc.L1Static && r.h0 != 0 && n.syncedTo() >= r.h0 && len(n.Srv.Rows("eons")) == 1 {
			started := false
			for _, row := range n.Srv.Rows("tendermint_batch_config") {
				if row["started"].(bool) {
					started = true
				}
			}
			if !started {
				vt.crashedBeforeRetry = true
			}
		}
		// between the per-block transactions of a multi-block range: at least
		// one block of this iteration's range is committed, at least one is not
		if now, rangeEnd := n.syncedTo(), open-3; len(marks) > 0 && now > startedAt && now < rangeEnd {
			vt.crashedMidRange = true
			for h := startedAt + 1; h <= now; h++ {
				if vt.dkgRelevant(h) {
					vt.crashedMidRangeDKG = true
				}
			}
		}
		vt.crashOpen = append(vt.crashOpen, open)
		r.noLagUntil[n.Pos] = open + 1 // the restarted process polls right away, whatever its usual pace
		vt.plan = vt.plan[1:]
		n.stop()
		n.Restarts++
		if err := n.start(r.ctx, r.chain); err != nil {
			return fmt.Errorf("restart: %w", err)
		}
		vt.instrument()
		vt.afterRestartChecks()
		vt.arm()
		return nil
	}
	return stepErr
}

func (n *Node) syncedTo() int64 {
	var m int64
	for _, row := range n.Srv.Rows("tendermint_sync_meta") {
		if h := row["current_block"].(int64); h > m {
			m = h
		}
	}
	return m
}

// storedPolynomial reads the victim's persisted DKG state.
// storedPolynomials reads the victim's persisted DKG states (per eon).
func (vt *victimTracer) storedPolynomials() map[uint64]*shcrypto.Polynomial {
	res := map[uint64]*shcrypto.Polynomial{}
	for _, row := range vt.node().Srv.Rows("puredkg") {
		pure, err := shdb.DecodePureDKG(row["puredkg"].([]byte))
		if err != nil {
			vt.problems = append(vt.problems, fmt.Sprintf("stored puredkg does not decode: %v", err))
			continue
		}
		if pure.Polynomial != nil {
			res[uint64(row["eon"].(int64))] = pure.Polynomial
		}
	}
	return res
}

// observeSecret: oracle (3) - whatever is on chain from the victim matches
// the secret state in its database, and that state never changes (per eon).
func (vt *victimTracer) observeSecret(where string) {
	vt.r.observe()
	for eon, poly := range vt.storedPolynomials() {
		g := fmt.Sprintf("%x", poly.Gammas().Marshal())
		if vt.polys == nil {
			vt.polys, vt.polyEvals = map[uint64][]string{}, map[uint64]map[int]string{}
		}
		if ps := vt.polys[eon]; len(ps) == 0 || ps[len(ps)-1] != g {
			vt.polys[eon] = append(vt.polys[eon], g)
			vt.polyEvals[eon] = map[int]string{}
			for p := 0; p < vt.r.sc.N; p++ {
				vt.polyEvals[eon][p] = poly.EvalForKeyper(p).String()
			}
		}
		if len(vt.polys[eon]) > 1 && len(vt.problems) < 5 {
			vt.problems = append(vt.problems, fmt.Sprintf("%s: the stored polynomial of eon %d changed (%d different ones so far)", where, eon, len(vt.polys[eon])))
		}
		for _, tx := range vt.r.chain.Submitted {
			if tx.Signer != vt.node().Addr || tx.Msg == nil || tx.Msg.GetPolyCommitment() == nil || tx.Msg.GetPolyCommitment().Eon != eon {
				continue
			}
			sent := decodeGammas(tx.Msg.GetPolyCommitment().Gammas)
			if (sent == nil || fmt.Sprintf("%x", sent.Marshal()) != g) && len(vt.problems) < 5 {
				vt.problems = append(vt.problems, fmt.Sprintf("%s: commitment for eon %d sent at height %d differs from the stored polynomial's", where, eon, tx.Height))
			}
		}
	}
}

func (vt *victimTracer) afterRestartChecks() {
	vt.observeSecret("after restart")
	vt.checkBlockSeen("after restart")
}

// checkBlockSeen: last_block_seen is the keyper's record of the newest
// main-chain block it has reported; it must never be ahead of the newest
// block-seen report that is queued in the outbox or was handed to shuttermint.
func (vt *victimTracer) checkBlockSeen(where string) {
	n := vt.node()
	last := int64(-1)
	for _, row := range n.Srv.Rows("last_block_seen") {
		last = row["block_number"].(int64)
	}
	best := int64(-1)
	for _, row := range n.Srv.Rows("tendermint_outgoing_messages") {
		m := &shmsg.Message{}
		if b, _ := row["msg"].([]byte); proto.Unmarshal(b, m) == nil && m.GetBlockSeen() != nil {
			best = max(best, int64(m.GetBlockSeen().BlockNumber))
		}
	}
	for _, tx := range vt.r.chain.Submitted {
		if tx.Signer == n.Addr && tx.Msg != nil && tx.Msg.GetBlockSeen() != nil {
			best = max(best, int64(tx.Msg.GetBlockSeen().BlockNumber))
		}
	}
	if last > best && len(vt.problems) < 5 {
		vt.problems = append(vt.problems, fmt.Sprintf("%s: last_block_seen=%d but the newest block-seen report queued or sent is for block %d - the report for %d is lost and will not be queued again", where, last, best, last))
		vt.blockSeenLost = true
	}
}

// ---------------------------------------------------------------------------

type c08Result struct {
	units                  []unitInfo
	bcasts                 []string
	stats                  agreeStats
	crashes                []string
	zombie                 int
	restarts               int
	unsupported            []string
	prefixOK               bool
	execErr                error
	h0, L                  int64
	retryH                 int64 // height of the EonStarted event of a retried key generation (0: none)
	crashedBeforeRetry     bool
	crashedPending         bool
	crashedAfterCommitOnly bool
	crashedMidRange        bool
	crashedMidRangeDKG     bool
	crashedEvalsWaiting    bool
	sawSameDesc            bool
	persistFailed          bool
	divergence             string
}

// c08Scenario: variant 0 and 1 are all honest (two keyper-set orders, check-in
// fork on/off). Variant 2 adds a Byzantine third keyper that deals a wrong
// eval to the victim and accuses it falsely (and apologizes correctly), so
// that the victim also has to get an accusation and an apology through the
// crash; every honest keyper still succeeds in the crash-free twin. Variant 3
// is all honest with one broadcast per keyper and block. Variants 4 and 5 make
// the victim lag (it iterates every 2nd / 3rd block), so that its sync ranges
// hold several blocks with one database transaction each. In variants 6 and 7
// one / two other keypers check in only after the eon has started, so the
// victim's evaluations for them wait in poly_evals for some blocks; variants 8
// and 9 put the late check-in right behind the eon start (see below).
func c08Scenario(variant, victim int) Scenario {
	orders := [][]int{{0, 1, 2}, {2, 0, 1}, {1, 2, 0}}
	sc := Scenario{N: 3, T: 2, L: 8, Order: orders[variant%len(orders)], Byz: map[int]ByzStrategy{}, Fair: true, ForkEnabled: variant%2 == 0, Tail: 8}
	if variant == 2 {
		b := (victim + 1) % 3
		other := (victim + 2) % 3
		sc.Byz[b] = ByzStrategy{Commit: cmCorrect, Eval: map[int]int{victim: evWrong, other: evCorrect}, Accuse: []int{victim}, Apology: apCorrect, DealOff: 2, AccOff: 2, ApoOff: 4, Repeat: true, ExtraApology: 1}
	}
	if variant == 3 {
		// one broadcast per iteration, as with a real Tendermint node whose
		// BroadcastTxCommit returns only after the block: check-in,
		// commitment and evals of a keyper land in three consecutive blocks,
		// so there are blocks that carry nothing but commitments
		sc.PlainBudget = 1
	}
	if variant == 6 {
		// the process of a third keyper comes up late: its check-in - the
		// encryption key the victim's evaluation for it waits for in poly_evals -
		// lands two blocks after EonStarted; the victim sends that evaluation
		// three blocks later, still inside the dealing phase
		sc.StartLate = map[int]int{(victim + 1) % 3: 2}
	}
	if variant == 8 || variant == 9 {
		// a third keyper checks in one block after EonStarted. Variant 8: the
		// victim is a slow node that applies the EonStarted block and the
		// check-in block in one sync range before its sender runs, so its
		// outbox holds two "poly eval (eon=N)" rows at the same time (first
		// the receivers known at the eon start, then the late one). Variant 9:
		// no lag - the two rows meet only if the victim dies between the
		// transaction of the EonStarted block and the send.
		sc.StartLate = map[int]int{(victim + 1) % 3: 1}
		if variant == 8 {
			sc.Lag = map[int]int{victim: 2}
		}
	}
	if variant == 10 {
		// A key generation that fails and is retried by shuttermint, on a main chain
		// that stands at block 0 (DKGStartBlockDelta 200 lets the keypers vote for
		// keyper set 1 anyway, no block-seen report is due, so no batch config is ever
		// marked started): t = n = 3 and a third keyper sleeps through the dealing
		// phase, every keyper's DKG fails, three DKGResult(false) votes make shuttermint
		// start a new eon for the same keyper set (an EonStarted event without a
		// BatchConfig event), which succeeds. The victim crashes somewhere between the
		// block that brought the batch config and the retry.
		sc.T = 3
		sc.L1Static = true
		sc.Stalls = []stall{{Pos: (victim + 1) % 3, From: 2, Len: 8}}
	}
	if variant == 7 {
		// four keypers, two of them late (1 and 3 blocks after the eon start)
		sc.N, sc.L, sc.Order = 4, 10, []int{0, 1, 2, 3}
		sc.StartLate = map[int]int{(victim + 1) % 4: 1, (victim + 3) % 4: 3}
	}
	if variant == 4 {
		// the victim is a slow node: it iterates only every second block and
		// catches up over ranges of two blocks
		// (offset 0: the eon-start block, the victim's own commitment and the
		// three phase changes are the first block of a two-block range)
		sc.Lag = map[int]int{victim: 2}
	}
	if variant == 5 {
		// slow victim (every third block, ranges of three blocks) and the
		// Byzantine dealer of variant 2; longer phases leave room for the
		// iteration a crash costs
		sc.L = 10
		sc.Lag = map[int]int{victim: 3}
		b := (victim + 1) % 3
		other := (victim + 2) % 3
		sc.Byz[b] = ByzStrategy{Commit: cmCorrect, Eval: map[int]int{victim: evWrong, other: evCorrect}, Accuse: []int{victim}, Apology: apCorrect, DealOff: 2, AccOff: 2, ApoOff: 4, Repeat: true, ExtraApology: 1}
	}
	return sc
}

// runC08 executes the scenario with the given crash plan (nil = reference run).
func runC08(sc Scenario, victim int, plan []crashPoint, ref *c08Result, fail failFn) *c08Result {
	ctx := context.Background()
	res := &c08Result{prefixOK: true}
	r, err := newRun(ctx, sc, fixedChooser{})
	if err != nil {
		res.execErr = err
		return res
	}
	defer r.close()
	vt := &victimTracer{r: r, victim: victim, plan: append([]crashPoint{}, plan...)}
	vt.base = vt.node().Srv.RoundTrips()
	vt.instrument()
	vt.arm()
	r.StepHook = vt.step
	r.AfterBlock = func(r *Run, closed int64) {
		vt.observeSecret(fmt.Sprintf("after block %d", closed))
		vt.checkBlockSeen(fmt.Sprintf("after block %d", closed))
	}
	// the plain fair schedule also during the DKG blocks
	r.plainSchedule = true
	r.checkPersisted = true
	res.execErr = r.execute()
	if res.execErr == nil && sc.L1Static {
		r.runToQuiescence() // the retried eon
	}
	nUnits, nBcasts := -1, -1
	if res.execErr == nil {
		// no more crashes; a few more blocks so that a victim killed in the
		// last blocks of the run can catch up before the final comparison
		vt.planLeft = len(vt.plan)
		nUnits, nBcasts = len(vt.units), len(vt.bcasts)
		vt.plan = nil
		vt.arm()
		for i := 0; i < 3; i++ {
			r.l1++
			r.block(false)
		}
	}
	res.units, res.bcasts, res.crashes, res.zombie, res.restarts = vt.units, vt.bcasts, vt.crashes, vt.zombie, vt.node().Restarts
	if nUnits >= 0 {
		// crash points are enumerated over the scheduled part of the run only
		res.units, res.bcasts = vt.units[:nUnits], vt.bcasts[:nBcasts]
	}
	res.unsupported = r.unsupported()
	res.h0, res.L = r.h0, sc.L
	res.crashedBeforeRetry = vt.crashedBeforeRetry
	if starts := r.eonStarts(); len(starts) > 1 {
		// the outcome that counts is the one of the last eon (shuttermint's retry of a failed
		// key generation): from here on the oracles look at that one
		last := starts[len(starts)-1]
		res.retryH = last[1]
		r.eon, r.h0 = uint64(last[0]), last[1]
	} else if sc.L1Static && res.execErr == nil {
		fail("no-retry", "the failed key generation was not retried by shuttermint\n%s", r.history())
	}
	res.crashedPending = vt.crashedPending
	res.crashedAfterCommitOnly = vt.crashedAfterCommitOnly
	res.crashedMidRange, res.crashedMidRangeDKG = vt.crashedMidRange, vt.crashedMidRangeDKG
	res.crashedEvalsWaiting = vt.crashedEvalsWaiting
	res.sawSameDesc = vt.sawSameDesc
	if res.execErr != nil || len(res.unsupported) > 0 {
		if res.execErr != nil && len(res.unsupported) == 0 {
			fail("no-progress", "%v\ncrashes: %v\n%s", res.execErr, vt.crashes, r.history())
		}
		return res
	}
	hist := func() string {
		return fmt.Sprintf("victim k%d crashes: %v\nstep errors: %v\n%s", victim, vt.crashes, r.stepErrors, r.history())
	}
	// numbering sanity: up to the first crash the run must look like the reference
	if ref != nil && len(plan) > 0 && plan[0].Kind == "db" {
		for u := 0; u < plan[0].K-1 && u < len(ref.units) && u < len(vt.units); u++ {
			a, b := ref.units[u], vt.units[u]
			a.Pending, b.Pending = false, false // depends on how the iteration ended
			a.BlockSeenDue, b.BlockSeenDue = false, false
			if a != b {
				res.prefixOK = false
				res.divergence = fmt.Sprintf("round trip %d: reference %+v, this run %+v", u+1, ref.units[u], vt.units[u])
				break
			}
		}
	}
	if len(plan) > 0 && vt.planLeft == len(plan) {
		// the crash point was never reached
		res.prefixOK = false
		res.divergence = fmt.Sprintf("crash point %v never reached (%d round trips, %d broadcasts in this run)", plan[0], len(vt.units), len(vt.bcasts))
	}
	res.persistFailed = len(r.persistProblems) > 0
	if res.persistFailed && (ref == nil || !ref.persistFailed) {
		// (reported once for the crash-free run; the crash cases then show what a crash makes of it)
		fail(sigPersistedMemory, "after a committed main-loop iteration the DKG state in memory is not what the puredkg table holds - a crash at this moment loses the difference: %v\n%s", r.persistProblems, hist())
	}
	if len(r.stepErrors) > 0 {
		fail("victim-loop-error", "a main-loop iteration failed although no fault was injected into it: %v\n%s", r.stepErrors, hist())
	}
	// (5) outcome as in the crash-free twin + the agreement oracle of C07
	if vt.crashedPending && isKnown("C08", sigReloadPending) {
		// (only while that finding is open) one root cause, one signature: the reloaded DKG state rejects the
		// commitments/evals that were still outstanding at the restart
		if o, err := r.outcome(vt.node()); err == nil && o.HasRow && !o.Success && (strings.Contains(o.Error, "not considered corrupt") || strings.Contains(o.Error, "keypers participated")) {
			fail(sigReloadPending, "the victim was restarted while its stored DKG state still waited for commitments/evals; afterwards it refused them and its DKG failed: dkg_result.error=%q (every other keyper succeeds, as does the victim in the crash-free twin)\n%s", o.Error, hist())
			return res
		}
	}
	res.stats, _ = r.checkAgreement(func(sig, f string, a ...any) {
		fail(sig, f+"\nvictim k%d crashes: %v", append(a, victim, vt.crashes)...)
	}, true)
	if !res.stats.Premise {
		// in the crash-free twin every DKG message of every honest keyper lands inside its phase
		// (evaluations included, also those for keypers that checked in late); one lost
		// iteration per crash leaves room for that
		fail("honest-message-late-or-never-sent", "%s (in the crash-free twin every honest DKG message is on chain inside its phase)\n%s", res.stats.PremiseWhy, hist())
	}
	if res.stats.Successes != len(sc.honest()) {
		fail("outcome-differs-from-twin", "crash-free twin: all %d honest keypers succeed; with the crash: successes=%d failures=%d without result=%d\n%s",
			len(sc.honest()), res.stats.Successes, res.stats.Failures, res.stats.NoRow, hist())
	}
	// (3) secret state
	if vt.blockSeenLost {
		fail("block-seen-report-lost", "%v\n%s", vt.problems, hist())
	} else if len(vt.problems) > 0 {
		fail("secret-state-inconsistent", "%v\n%s", vt.problems, hist())
	}
	chainRef := r.reference()
	for accuser, hs := range chainRef.AccusTxH {
		if _, byz := sc.Byz[accuser]; !byz && (len(sc.Byz) == 0 || accuser != victim) {
			fail("honest-accusation", "honest k%d sent an accusation (heights %v) although no honest keyper misbehaved towards it\n%s", accuser, hs, hist())
		}
	}
	if len(sc.Byz) > 0 {
		// variant with a Byzantine dealer: the victim must have accused it and answered its false accusation, in time
		if len(chainRef.AccusTxH[victim]) == 0 {
			fail("message-lost", "the victim received a wrong eval but its accusation never reached shuttermint\n%s", hist())
		}
		if len(chainRef.ApoTxH[victim]) == 0 {
			fail("message-lost", "the victim was accused but its apology never reached shuttermint\n%s", hist())
		}
	}
	vn := vt.node()
	// what the victim sent decrypts (with the receivers' keys) to evaluations of its stored polynomial
	var commits []string
	for _, tx := range r.chain.Submitted {
		if tx.Signer != vn.Addr || tx.Msg == nil {
			continue
		}
		if pc := tx.Msg.GetPolyCommitment(); pc != nil && pc.Eon == r.eon {
			commits = append(commits, fmt.Sprintf("%x", bytes.Join(pc.Gammas, nil)))
		}
		if pe := tx.Msg.GetPolyEval(); pe != nil && pe.Eon == r.eon {
			for i, rc := range pe.Receivers {
				q := r.posOf(common.BytesToAddress(rc))
				if q < 0 {
					continue
				}
				pt, err := ecies.ImportECDSA(encKeys[sc.Order[q]]).Decrypt(pe.EncryptedEvals[i], nil, nil)
				if err != nil {
					fail("secret-state-inconsistent", "eval sent to k%d does not decrypt: %v\n%s", q, err, hist())
					continue
				}
				if want, ok := vt.polyEvals[pe.Eon][q]; ok && shdb.DecodeBigint(pt).String() != want {
					fail("secret-state-inconsistent", "eval sent to k%d at height %d is not the stored polynomial's value\n%s", q, tx.Height, hist())
				}
			}
		}
	}
	// (2) never two different commitments
	for _, c := range commits {
		if c != commits[0] {
			fail("two-commitments", "the victim published different polynomial commitments for eon %d (%d commitment transactions)\n%s", r.eon, len(commits), hist())
		}
	}
	if len(commits) == 0 {
		fail("no-commitment", "the victim never published a commitment\n%s", hist())
	}
	// (1) every block applied exactly once, in order; shared tables as a keyper that never crashed
	var applied []int64
	type outMsg struct {
		id   int64
		desc string
		msg  []byte
	}
	var outbox []*outMsg
	byID := map[int64]*outMsg{}
	for _, cr := range vn.Srv.CommitLog() {
		for _, ch := range cr.Changes {
			switch {
			case ch.Table == "tendermint_sync_meta" && ch.Op == "insert":
				applied = append(applied, ch.New["current_block"].(int64))
			case ch.Table == "tendermint_outgoing_messages" && ch.Op == "insert":
				m := &outMsg{id: ch.New["id"].(int64), desc: ch.New["description"].(string), msg: ch.New["msg"].([]byte)}
				outbox = append(outbox, m)
				byID[m.id] = m
			}
		}
	}
	for i, h := range applied {
		if h != int64(i+1) {
			fail("block-not-applied-exactly-once", "tendermint_sync_meta insert sequence %v: position %d holds height %d\n%s", applied, i, h, hist())
			break
		}
	}
	other := r.nodes[(victim+2)%sc.N] // honest in every variant
	// every block-seen report the uncrashed keyper got through (activation blocks 0 and 100 of
	// the two keyper sets) is also on chain from the victim
	maxSeen := func(n *Node) int64 {
		m := int64(-1)
		for _, tx := range r.chain.AllTxs {
			if tx.Signer == n.Addr && tx.Code == 0 && tx.Msg != nil && tx.Msg.GetBlockSeen() != nil {
				m = max(m, int64(tx.Msg.GetBlockSeen().BlockNumber))
			}
		}
		return m
	}
	for _, act := range []int64{0, keyperSetActivation} {
		if maxSeen(other) >= act && maxSeen(vn) < act {
			fail("block-seen-report-lost", "k%d (never crashed) reported main-chain block %d >= activation block %d to shuttermint, the victim's newest accepted report is %d\n%s", other.Pos, maxSeen(other), act, maxSeen(vn), hist())
		}
	}
	if int64(len(applied)) != other.syncedTo() {
		fail("victim-stuck", "victim applied blocks up to %d, a keyper that never crashed up to %d\n%s", len(applied), other.syncedTo(), hist())
	}
	for _, tbl := range []string{"eons", "tendermint_batch_config", "tendermint_encryption_key", "outgoing_eon_keys", "puredkg", "poly_evals"} {
		a, b := canonRows(vn.Srv.Rows(tbl)), canonRows(other.Srv.Rows(tbl))
		if a != b {
			fail("state-differs-from-uncrashed-keyper", "table %s of the victim:\n%s\nof k%d (never crashed):\n%s\n%s", tbl, a, other.Pos, b, hist())
		}
	}
	// (4) outbox: delivered in order, each at least once, duplicates only around crashes, empty at the end
	sort.Slice(outbox, func(i, j int) bool { return outbox[i].id < outbox[j].id })
	if n := len(vn.Srv.Rows("tendermint_outgoing_messages")); n > 0 {
		fail("outbox-not-drained", "%d messages still queued at the end of the run\n%s", n, hist())
	}
	queueDescs := func() []string {
		var ds []string
		for _, m := range outbox {
			ds = append(ds, fmt.Sprintf("%d:%s", m.id, m.desc))
		}
		return ds
	}
	pos := -1 // index into outbox of the last message sent
	dups := 0
	nonOK := 0
	var sentDesc []string
	for _, tx := range r.chain.Submitted {
		if tx.Signer != vn.Addr || tx.Msg == nil {
			continue
		}
		if !tx.Admitted || tx.Code != 0 {
			nonOK++
		}
		payload := tx.Msg
		match := -1
		for j := max(pos, 0); j < len(outbox); j++ {
			m := &shmsg.Message{}
			if proto.Unmarshal(outbox[j].msg, m) == nil && proto.Equal(m, payload) {
				match = j
				break
			}
		}
		switch {
		case match < 0:
			fail("outbox-order", "the victim sent %s at height %d, which is not a queued message at or after outbox position %d (queue: %v)\n%s", msgKind(tx), tx.Height, pos, queueDescs(), hist())
		case match == pos:
			dups++
		default:
			for j := pos + 1; j < match; j++ {
				if !strings.HasPrefix(outbox[j].desc, "new batch config") {
					fail("outbox-order", "queued message %q (id %d) was skipped: the victim went on to send %q\n%s", outbox[j].desc, outbox[j].id, outbox[match].desc, hist())
				}
			}
			pos = match
		}
		sentDesc = append(sentDesc, fmt.Sprintf("%s@%d/%d", msgKind(tx), tx.Height, tx.Code))
	}
	for j := pos + 1; j < len(outbox); j++ {
		if !strings.HasPrefix(outbox[j].desc, "new batch config") {
			fail("message-lost", "queued message %q (id %d) never reached shuttermint\n%s", outbox[j].desc, outbox[j].id, hist())
		}
	}
	// a duplicate needs a reason: a crash between send and delete, or a send that shuttermint did not accept
	if dups > len(vt.crashes)+nonOK {
		fail("unexplained-duplicate", "%d duplicate sends with %d crashes and %d refused sends: %v\n%s", dups, len(vt.crashes), nonOK, sentDesc, hist())
	}
	return res
}

func canonRows(rows []map[string]any) string {
	var lines []string
	for _, row := range rows {
		var ks []string
		for k := range row {
			ks = append(ks, k)
		}
		sort.Strings(ks)
		var sb strings.Builder
		for _, k := range ks {
			switch v := row[k].(type) {
			case []byte:
				fmt.Fprintf(&sb, "%s=%x ", k, v)
			default:
				fmt.Fprintf(&sb, "%s=%v ", k, v)
			}
		}
		lines = append(lines, sb.String())
	}
	sort.Strings(lines)
	return strings.Join(lines, "\n")
}

// ---------------------------------------------------------------------------

const c08Rule = "case = (victim keyper, crash point) in a DKG run in which the crash-free twin succeeds (n=3,t=2,L=8, every keyper one sync+onchain+send iteration per block; variants: all honest with two keyper-set orders and check-in fork on/off; one Byzantine keyper that deals a wrong eval to the victim and accuses it falsely (each of its accusation/apology/eval messages preceded by a copy whose address list repeats an entry, which shuttermint refuses; its apology, which lands in the middle of the apologizing phase in a block of its own, carries behind the genuine entry one for a keyper that never accused it, with an out-of-range evaluation), so that the victim also has an accusation and an apology to get through): every client->database round trip k of the victim observed in a crash-free reference run x {connection lost before the request, request executed (COMMIT applied) but reply lost}, and every accepted BroadcastTxCommit x {process dies before the outbox row is deleted}; a fourth variant sends one message per keyper and block (commitment-only blocks exist); in a fifth and sixth the victim is a slow node that runs its main loop only every 2nd / 3rd block (the sixth together with the Byzantine dealer, L=10), so that it catches up over sync ranges of several blocks with one transaction each and crash points lie between them; in a seventh and eighth one / two other keypers come up late and check in 1-3 blocks after the eon start (n=4, L=10 for two), so that evaluations of the victim wait in poly_evals for a receiver's encryption key while it crashes; in a ninth and tenth the late check-in follows the eon start by one block and the victim is a slow node (ninth) or not (tenth), so that two outbox rows with the same description ('poly eval (eon=N)' for the receivers known at the eon start and for the late one) are pending together - always in the ninth, after a crash between the EonStarted block's transaction and the send in the tenth; quick (every seed) runs the one-message variant, the Byzantine variant and the every-2nd-block variant with victim k1 and every 7th database point, plus every point of the on-chain-changes transactions that queue a block-seen report (the observed main-chain block number passes activation block 0 at bootstrap and activation block 100 of keyper set 1 six blocks after the eon start) in the one-message variant, plus the one-late-keyper variant and the late-keyper-with-slow-victim variant restricted to the blocks h0+2..h0+8 around the late check-in with every 3rd point, thorough all ten variants, all three victims, every point and 400 sampled pairs of crashes per variant and victim. In addition, in every run (crash-free twin included), after every main-loop iteration of every honest keyper that ended without error, and after every per-block transaction inside a sync range, the PureDKG objects in the keyper's memory (read through reflect) must equal the puredkg rows decoded from its database: what a keyper knows after a committed block must be persisted. After every block and every restart last_block_seen must not be ahead of the newest block-seen report queued or sent, and at the end the victim must have got through every block-seen report (activation blocks 0 and 100) that a keyper that never crashed got through. Non-trivial = the crash fell inside an open database transaction (block-tx, block-commit, onchain-tx, onchain-commit), on the outbox delete, or between an accepted broadcast and the delete (as opposed to an idle poll or a BEGIN). Distinct = (variant, victim, crash points)."

func c08Assumptions(rec *Recorder) {
	rec.Assume(
		"pgfake transaction semantics (READ COMMITTED, rollback of the open transaction when the connection drops, COMMIT applied before a lost reply)",
		"a crash is modelled at the granularity of database round trips and RPC calls; a crash between two instructions that touch neither is equivalent to one at the next such point",
		"the process exits at the first error of a main-loop iteration (keyper.operateShuttermint returns it and the service group shuts down); restart = new pool, new ShuttermintState, new RPCMessageSender on the same database before the victim's next turn (one block later, also for a victim that otherwise runs only every 2nd/3rd block)",
		"faketm delivers a broadcast into the open block immediately; the other keypers are not crashed",
		"round-trip numbers come from a reference run of the same process; a case whose prefix does not reproduce the reference is counted as inconclusive, not as a pass",
	)
}

func classNontrivial(c string) bool {
	switch c {
	case "block-tx", "block-commit", "onchain-tx", "onchain-commit", "send-delete", "rpc":
		return true
	}
	return false
}

func phaseLabel(open, h0, L int64) string {
	switch {
	case h0 == 0 || open <= h0:
		return "before-eon"
	case open < h0+L+3:
		return "dealing"
	case open < h0+2*L+3:
		return "accusing"
	case open < h0+3*L+3:
		return "apologizing"
	}
	return "after-finalize"
}

func TestC08_CrashRecovery(t *testing.T) {
	rec := recorder("C08")
	rec.AddRule(c08Rule)
	c08Assumptions(rec)

	variants := []int{3, 2, 4, 6, 8, 10}
	victims := []int{1}
	if thorough() {
		variants = []int{0, 1, 2, 3, 4, 5, 6, 7, 8, 9, 10}
		victims = []int{0, 1, 2}
	}
	caseNo := 0
	inconclusive := 0
	total := 0
	replay := c08Replay()
	if replay != nil {
		variants, victims = []int{replay.Variant}, []int{replay.Victim}
	}
	for _, variant := range variants {
		for _, victim := range victims {
			sc := c08Scenario(variant, victim)
			// reference run (twice: the numbering must be reproducible)
			var refFail []string
			ff := func(sig, f string, a ...any) { refFail = append(refFail, sig+": "+fmt.Sprintf(f, a...)) }
			ref := runC08(sc, victim, nil, nil, ff)
			ref2 := runC08(sc, victim, nil, nil, ff)
			if len(ref.unsupported) > 0 {
				rec.Inconclusive(fmt.Sprintf("pgfake: unsupported SQL: %v", ref.unsupported))
				t.Fatalf("inconclusive: %v", ref.unsupported)
			}
			if len(refFail) > 0 {
				if strings.HasPrefix(refFail[0], sigPersistedMemory+":") {
					// the state oracle already fails without any crash: report it and
					// go on - the crash cases show the consequence
					path := rec.SaveReplay(t.Name(), fmt.Sprintf("reference-v%d-k%d", variant, victim), map[string]any{"variant": variant, "victim": victim, "plan": []crashPoint{}, "seed": seed})
					rec.Violation(sigPersistedMemory, refFail[0], path)
					t.Errorf("VERIF-FAIL signature=%s :: variant=%d victim=k%d crash-free run :: %s", sigPersistedMemory, variant, victim, refFail[0])
				} else {
					// the oracles already fail without any crash: report and go on with the next scenario
					sig := strings.SplitN(refFail[0], ":", 2)[0]
					path := rec.SaveReplay(t.Name(), fmt.Sprintf("reference-v%d-k%d", variant, victim), map[string]any{"variant": variant, "victim": victim, "plan": []crashPoint{}, "seed": seed})
					rec.Violation(sig, "crash-free run: "+refFail[0], path)
					t.Errorf("VERIF-FAIL signature=%s :: variant=%d victim=k%d crash-free run :: %s", sig, variant, victim, refFail[0])
					continue
				}
			}
			if len(ref.units) != len(ref2.units) || len(ref.bcasts) != len(ref2.bcasts) {
				rec.Inconclusive("reference run not reproducible")
				t.Fatalf("inconclusive: two crash-free runs made %d and %d round trips", len(ref.units), len(ref2.units))
			}
			for i := range ref.units {
				if ref.units[i] != ref2.units[i] {
					rec.Inconclusive("reference run not reproducible")
					t.Fatalf("inconclusive: round trip %d classified %v and %v in two crash-free runs", i+1, ref.units[i], ref2.units[i])
				}
			}
			K, B := len(ref.units), len(ref.bcasts)
			rec.SetExtra(fmt.Sprintf("reference_v%d_k%d", variant, victim), map[string]any{"db_round_trips": K, "accepted_broadcasts": B, "broadcasts": ref.bcasts})
			var points []crashPoint
			for k := 1; k <= K; k++ {
				points = append(points, crashPoint{Kind: "db", K: k}, crashPoint{Kind: "db", K: k, After: true})
			}
			for j := 1; j <= B; j++ {
				points = append(points, crashPoint{Kind: "rpc", K: j})
			}
			var plans [][]crashPoint
			if replay != nil {
				plans = [][]crashPoint{replay.Plan}
			} else if thorough() {
				for _, p := range points {
					plans = append(plans, []crashPoint{p})
				}
				// sampled pairs: second crash a drawn number of round trips after the restart
				for i := 0; i < 400; i++ {
					a := points[int(hash64(fmt.Sprintf("pairA/%d/%d/%d/%d", seed, variant, victim, i))%uint64(len(points)))]
					off := 1 + int(hash64(fmt.Sprintf("pairB/%d/%d/%d/%d", seed, variant, victim, i))%120)
					second := crashPoint{Kind: "db", K: off, After: i%2 == 1, Rel: true}
					if i%7 == 0 {
						second = crashPoint{Kind: "rpc", K: 1 + off%3, Rel: true}
					}
					plans = append(plans, []crashPoint{a, second})
				}
			} else {
				// quick: a slice of the single points chosen by the seed (stratified over the run), all rpc points
				stride := 7
				for i, p := range points {
					if variant == 10 {
						// (every crash between the batch-config block and the retry behaves alike)
						stride = 25
						if thorough() {
							stride = 3
						}
						if p.Kind == "db" {
							if o := ref.units[p.K-1].Open; o < ref.h0+3 || o > ref.retryH+3 {
								continue
							}
						} else if !thorough() {
							continue
						}
					}
					if variant == 6 || variant == 8 {
						// the rest of this run looks like variant 0 / 4: only the blocks around
						// the late check-in, every 3rd point
						stride = 3
						if p.Kind == "db" {
							if o := ref.units[p.K-1].Open; o < ref.h0+2 || o > ref.h0+8 {
								continue
							}
						} else if !strings.HasPrefix(ref.bcasts[p.K-1], "commitment") && !strings.HasPrefix(ref.bcasts[p.K-1], "polyeval") {
							continue
						}
					}
					due := variant == variants[0] && p.Kind == "db" && ref.units[p.K-1].BlockSeenDue
					if p.Kind == "rpc" || i%stride == seed%stride || due {
						plans = append(plans, []crashPoint{p})
					}
				}
			}
			known := isKnown("C08", sigReloadPending) && replay == nil
			if known && variant == variants[0] && victim == victims[0] {
				// (a) replay the class: first commit of a block transaction inside the pending window
				for k, u := range ref.units {
					if u.Pending && u.Class == "block-commit" {
						still := false
						runC08(sc, victim, []crashPoint{{Kind: "db", K: k + 1, After: true}}, ref, func(sig, f string, a ...any) {
							if sig == sigReloadPending {
								still = true
							}
						})
						if still {
							rec.KnownFinding(sigReloadPending)
						}
						break
					}
				}
			}
			for _, plan := range plans {
				if known {
					// (b) excluded by construction: single crashes inside the window; pairs whose
					// first crash is not after the window (the second one could fall into it)
					inWindow := false
					if plan[0].Kind == "db" {
						inWindow = ref.units[plan[0].K-1].Pending
					} else {
						inWindow = strings.HasPrefix(ref.bcasts[plan[0].K-1], "commitment") || strings.HasPrefix(ref.bcasts[plan[0].K-1], "polyeval") || strings.HasPrefix(ref.bcasts[plan[0].K-1], "checkin")
					}
					lastPending := 0
					for k, u := range ref.units {
						if u.Pending {
							lastPending = k + 1
						}
					}
					if inWindow || len(plan) > 1 && (plan[0].Kind == "rpc" || plan[0].K <= lastPending) {
						rec.Excluded(sigReloadPending)
						continue
					}
				}
				caseNo++
				if replay == nil && thorough() && !mySlice(caseNo) {
					continue
				}
				total++
				desc := fmt.Sprintf("variant=%d victim=k%d crash=%v", variant, victim, plan)
				failed := false
				res := runC08Plan(sc, victim, plan, ref, func(sig, format string, args ...any) {
					if failed {
						return
					}
					failed = true
					detail := desc + " :: " + fmt.Sprintf(format, args...)
					path := rec.SaveReplay(t.Name(), fmt.Sprintf("crash-v%d-k%d-%s", variant, victim, strings.NewReplacer(":", "_", " ", "", "[", "", "]", "").Replace(fmt.Sprint(plan))), map[string]any{"variant": variant, "victim": victim, "plan": plan, "plan_text": fmt.Sprint(plan), "seed": seed})
					rec.Violation(sig, detail, path)
					t.Errorf("VERIF-FAIL signature=%s :: %s", sig, detail)
				})
				if len(res.unsupported) > 0 {
					rec.Inconclusive(fmt.Sprintf("pgfake: unsupported SQL: %v (%s)", res.unsupported, desc))
					t.Fatalf("inconclusive: pgfake unsupported SQL %v", res.unsupported)
				}
				if res.execErr != nil && !failed {
					rec.Inconclusive(fmt.Sprintf("harness: %v (%s)", res.execErr, desc))
					t.Fatalf("inconclusive: %v", res.execErr)
				}
				if !res.prefixOK {
					inconclusive++
					rec.Label("numbering-diverged-or-point-not-reached")
					if os.Getenv("VERIF_DEBUG") != "" {
						t.Logf("diverged: %s: %s", desc, res.divergence)
					}
					continue
				}
				// labels
				first := plan[0]
				class := "rpc"
				var info unitInfo
				if first.Kind == "db" {
					info = ref.units[first.K-1]
					class = info.Class
				}
				labels := []string{"class:" + class, fmt.Sprintf("crashes=%d", len(res.crashes))}
				nt := classNontrivial(class)
				if res.crashedPending {
					labels = append(labels, "restart-with-dkg-messages-outstanding")
				}
				if res.crashedAfterCommitOnly {
					labels = append(labels, "crash-after-commitment-only-block")
				}
				if res.crashedEvalsWaiting {
					labels = append(labels, "crash-while-evals-wait-for-a-check-in")
				}
				if res.sawSameDesc {
					labels = append(labels, "two-outbox-rows-with-the-same-description-pending")
				}
				if res.crashedBeforeRetry {
					labels = append(labels, "crash-between-batch-config-and-retried-eon-start(no-config-started)")
				}
				if res.crashedMidRange {
					labels = append(labels, "crash-between-blocks-of-multi-block-range")
				}
				if res.crashedMidRangeDKG {
					labels = append(labels, "crash-after-dkg-relevant-non-final-block-of-range")
				}
				if first.Kind == "db" && info.BlockSeenDue {
					labels = append(labels, "crash-in-transaction-that-queues-a-block-seen-report")
				}
				if first.Kind == "db" {
					if first.After {
						labels = append(labels, "fault:reply-lost-after-execution")
					} else {
						labels = append(labels, "fault:connection-lost-before-request")
					}
					if strings.HasPrefix(class, "block-") && info.Events {
						labels = append(labels, "block-with-events")
					}
					labels = append(labels, "phase:"+phaseLabelFromRef(ref, info.Open))
				} else {
					labels = append(labels, "fault:died-between-broadcast-and-delete", "rpc-message:"+strings.SplitN(ref.bcasts[first.K-1], "(", 2)[0])
				}
				if len(plan) > 1 {
					labels = append(labels, "pair")
					if len(res.crashes) < 2 {
						labels = append(labels, "pair:second-point-not-reached")
					}
				}
				if res.zombie > 0 {
					labels = append(labels, "database-activity-after-the-fault")
				}
				if nt {
					labels = append(labels, "crash-inside-transaction-or-send-window")
				} else {
					labels = append(labels, "crash-at-idle-poll-or-begin")
				}
				rec.Case(desc, nt, labels...)
			}
		}
	}
	rec.SetExtra("cases_inconclusive_numbering", inconclusive)
	if inconclusive*10 > total && total > 0 {
		rec.Inconclusive(fmt.Sprintf("%d of %d crash cases could not be placed (round-trip numbering diverged)", inconclusive, total))
		t.Errorf("inconclusive: %d of %d crash cases could not be placed", inconclusive, total)
	}
}

func phaseLabelFromRef(ref *c08Result, open int64) string {
	return phaseLabel(open, ref.h0, ref.L)
}

func runC08Plan(sc Scenario, victim int, plan []crashPoint, ref *c08Result, fail failFn) *c08Result {
	return runC08(sc, victim, plan, ref, fail)
}

type c08ReplayCase struct {
	Variant int          `json:"variant"`
	Victim  int          `json:"victim"`
	Plan    []crashPoint `json:"plan"`
	Seed    int          `json:"seed"`
}

// c08Replay reads a JSON replay descriptor written by SaveReplay (nil if this
// run is not a replay).
func c08Replay() *c08ReplayCase {
	p := os.Getenv("VERIF_REPLAY_JSON")
	if p == "" {
		return nil
	}
	b, err := os.ReadFile(p)
	if err != nil {
		return nil
	}
	var d struct {
		Case c08ReplayCase `json:"case"`
	}
	if json.Unmarshal(b, &d) != nil || len(d.Case.Plan) == 0 {
		return nil
	}
	return &d.Case
}
