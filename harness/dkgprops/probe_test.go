package dkgprops

import (
	"context"
	"math/big"
	"os"
	"testing"
	"time"

	"github.com/shutter-network/shutter/shlib/puredkg"

	"github.com/shutter-network/rolling-shutter/rolling-shutter/shdb"
)

// TestProbe_AllHonest is a development probe (not a property check).
func TestProbe_AllHonest(t *testing.T) {
	if os.Getenv("VERIF_PROBE") == "" {
		t.Skip("development probe")
	}
	ctx := context.Background()
	sc := Scenario{N: 3, T: 2, L: 8, Order: []int{0, 1, 2}, Byz: map[int]ByzStrategy{}, Fair: true}
	t0 := time.Now()
	r, err := newRun(ctx, sc, fixedChooser{})
	if err != nil {
		t.Fatal(err)
	}
	defer r.close()
	if err := r.execute(); err != nil {
		t.Fatalf("%v\n%s", err, r.history())
	}
	st, ref := r.checkAgreement(func(sig, f string, a ...any) { t.Errorf("FAIL %s: "+f, append([]any{sig}, a...)...) }, true)
	t.Logf("took %v stats=%+v ref.qualified=%v h0=%d height=%d unsupported=%v", time.Since(t0), st, ref.qualified(sc.N), r.h0, r.chain.Height(), r.unsupported())
	for _, tx := range r.chain.AllTxs {
		t.Logf("h=%d %s code=%d %s", tx.Height, tx.Origin, tx.Code, msgKind(tx))
	}
	t.Logf("step errors: %v", r.stepErrors)
}

// budgetChooser forces a send budget (index into {-1,1,2}) and otherwise varies by seed.
type budgetChooser struct {
	d      detChooser
	budget int
}

func (b *budgetChooser) Pick(label string, w ...int) int {
	if label == "budget" {
		return b.budget
	}
	if label == "extra" {
		return 0
	}
	return b.d.Pick(label, w...)
}

// TestProbe_PhaseLength: smallest phase length for which all-honest runs succeed.
func TestProbe_PhaseLength(t *testing.T) {
	if os.Getenv("VERIF_PROBE") == "" {
		t.Skip("development probe")
	}
	ctx := context.Background()
	for _, budget := range []int{0, 1, 2} {
		for L := int64(2); L <= 9; L++ {
			okRuns, premise := 0, 0
			const runs = 6
			why := ""
			for s := 0; s < runs; s++ {
				sc := Scenario{N: 3 + s%3, T: 2, L: L, Order: []int{0, 1, 2, 3, 4}[:3+s%3], Byz: map[int]ByzStrategy{}, Fair: true}
				r, err := newRun(ctx, sc, &budgetChooser{d: detChooser{seed: "pl" + string(rune('a'+s))}, budget: budget})
				if err != nil {
					t.Fatal(err)
				}
				if err := r.execute(); err != nil {
					t.Fatalf("%v", err)
				}
				failed := false
				st, _ := r.checkAgreement(func(sig, f string, a ...any) { failed = true }, false)
				if st.Successes == sc.N && !failed {
					okRuns++
				}
				if st.Premise {
					premise++
				} else {
					why = st.PremiseWhy
				}
				r.close()
			}
			t.Logf("budget=%v L=%d: all-succeed %d/%d premise(in-phase) %d/%d %s", []int{-1, 1, 2}[budget], L, okRuns, runs, premise, runs, why)
		}
	}
}

// TestProbe_GobNil: witness for the restart defect (nil entries of
// PureDKG.Commitments/Evals do not survive shdb.EncodePureDKG/DecodePureDKG).
func TestProbe_GobNil(t *testing.T) {
	if os.Getenv("VERIF_PROBE") == "" {
		t.Skip("development probe")
	}
	p := puredkg.NewPureDKG(1, 3, 2, 0)
	if _, _, err := p.StartPhase1Dealing(); err != nil {
		t.Fatal(err)
	}
	b, err := shdb.EncodePureDKG(&p)
	if err != nil {
		t.Fatal(err)
	}
	q, err := shdb.DecodePureDKG(b)
	if err != nil {
		t.Fatal(err)
	}
	t.Logf("before: commitments=%v evals=%v", p.Commitments, p.Evals)
	t.Logf("after : commitments=%v evals=%v", q.Commitments, q.Evals)
	err = q.HandlePolyCommitmentMsg(puredkg.PolyCommitmentMsg{Eon: 1, Sender: 1, Gammas: p.Polynomial.Gammas()})
	t.Logf("HandlePolyCommitmentMsg after reload: %v", err)
	err = q.HandlePolyEvalMsg(puredkg.PolyEvalMsg{Eon: 1, Sender: 1, Receiver: 0, Eval: big.NewInt(5)})
	t.Logf("HandlePolyEvalMsg after reload: %v", err)
}

func TestProbe_Template(t *testing.T) {
	if os.Getenv("VERIF_PROBE") == "" {
		t.Skip("development probe")
	}
	ctx := context.Background()
	for _, L := range []int64{8} {
		st := ByzStrategy{Commit: cmCorrect, Eval: map[int]int{0: evWrong, 1: evCorrect}, Apology: apCorrect, DealOff: 2, AccOff: 1, ApoOff: 2}
		sc := Scenario{N: 3, T: 2, L: L, Order: []int{0, 1, 2}, Byz: map[int]ByzStrategy{2: st}, Fair: false,
			Stalls: []stall{{Pos: 0, From: int(L) - 2, Len: int(L) + 4}}}
		r, err := newRun(ctx, sc, &detChooser{seed: "tmpl"})
		if err != nil {
			t.Fatal(err)
		}
		if err := r.execute(); err != nil {
			t.Fatal(err)
		}
		stt, ref := r.checkAgreement(func(sig, f string, a ...any) { t.Errorf("FAIL %s: "+f, append([]any{sig}, a...)...) }, true)
		t.Logf("L=%d stats=%+v disq=%v", L, stt, ref.Disq)
		t.Logf("%s", r.history())
		for _, tx := range r.chain.AllTxs {
			if tx.Height > r.h0 {
				t.Logf("h=%d(+%d) %s code=%d %s", tx.Height, tx.Height-r.h0, tx.Origin, tx.Code, msgKind(tx))
			}
		}
		for _, p := range sc.honest() {
			o, _ := r.outcome(r.nodes[p])
			t.Logf("k%d: %+v", p, o)
		}
		r.close()
	}
}

func TestProbe_LateCheckIn(t *testing.T) {
	if os.Getenv("VERIF_PROBE") == "" {
		t.Skip("development probe")
	}
	ctx := context.Background()
	sc := Scenario{N: 3, T: 2, L: 8, Order: []int{0, 1, 2}, Byz: map[int]ByzStrategy{}, Fair: true, StartLate: map[int]int{2: 2}}
	r, err := newRun(ctx, sc, fixedChooser{})
	if err != nil {
		t.Fatal(err)
	}
	defer r.close()
	r.plainSchedule = true
	if err := r.execute(); err != nil {
		t.Fatalf("%v\n%s", err, r.history())
	}
	st, _ := r.checkAgreement(func(sig, f string, a ...any) { t.Errorf("FAIL %s: "+f, append([]any{sig}, a...)...) }, true)
	t.Logf("stats=%+v h0=%d", st, r.h0)
	for _, tx := range r.chain.AllTxs {
		t.Logf("h=%d(%+d) %s code=%d %s", tx.Height, tx.Height-r.h0, tx.Origin, tx.Code, msgKind(tx))
	}
	t.Logf("step errors: %v", r.stepErrors)
}

func TestProbe_Overlap(t *testing.T) {
	if os.Getenv("VERIF_PROBE") == "" {
		t.Skip("development probe")
	}
	ctx := context.Background()
	for _, at := range []int{0, 4, 10, 18} {
		sc := Scenario{N: 3, T: 2, L: 8, Order: []int{0, 1, 2}, Byz: map[int]ByzStrategy{}, Fair: true, Overlap: &overlapSpec{At: at, Rot: 1}}
		r, err := newRun(ctx, sc, fixedChooser{})
		if err != nil {
			t.Fatal(err)
		}
		r.plainSchedule = true
		t0 := time.Now()
		if err := r.execute(); err != nil {
			t.Fatalf("%v\n%s", err, r.history())
		}
		f := func(sig, f string, a ...any) { t.Errorf("FAIL %s: "+f, append([]any{sig}, a...)...) }
		st, _ := r.checkAgreement(f, true)
		t.Logf("at=%d eon1: %+v h0=%d h1=%d eon2=%d height=%d took %v", at, st, r.h0, r.h1, r.eon2, r.chain.Height(), time.Since(t0))
		if r.h1 != 0 {
			r.switchToSecondEon()
			st2, _ := r.checkAgreement(f, true)
			t.Logf("eon2: %+v", st2)
		}
		if at == 0 {
			for _, tx := range r.chain.AllTxs {
				if tx.Height >= r.h1 {
					t.Logf("h=%d %s code=%d %s", tx.Height, tx.Origin, tx.Code, msgKind(tx))
				}
			}
		}
		t.Logf("step errors %v", r.stepErrors)
		r.close()
	}
}
