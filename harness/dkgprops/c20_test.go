package dkgprops

// C20 (production side) - a finished DKG hands the eon key to publication.
//
// package props checks keyper.eonPubKeyHandler on rows inserted by hand. This
// test closes the gap in front of it: the rows are produced by the real
// smobserver.finalizeDKG at the end of complete DKG runs over faketm (all
// honest, with Byzantine dealers, with an honest keyper whose DKG fails, and
// a DKG that fails for everybody and is restarted by shuttermint), and the
// real handler is then run on exactly those databases.

import (
	"context"
	"fmt"
	"sort"
	"strings"
	"testing"

	"github.com/shutter-network/shutter/shlib/shcrypto"

	"github.com/shutter-network/rolling-shutter/rolling-shutter/keyper"
	"github.com/shutter-network/rolling-shutter/rolling-shutter/keyper/shutterevents"
	"github.com/shutter-network/rolling-shutter/rolling-shutter/p2p/p2ptest"
	"github.com/shutter-network/rolling-shutter/rolling-shutter/p2pmsg"
	"github.com/shutter-network/rolling-shutter/rolling-shutter/shdb"
)

type c20Scenario struct {
	Name  string
	Sc    Scenario
	Plain bool // plain fair schedule instead of a generated one
	Seed  string
}

func c20Fixed() []c20Scenario {
	byzDealer := ByzStrategy{Commit: cmCorrect, Eval: map[int]int{0: evWrong, 1: evCorrect}, Accuse: []int{0}, Apology: apCorrect, DealOff: 2, AccOff: 2, ApoOff: 4}
	silent := ByzStrategy{Commit: cmNone, Eval: map[int]int{0: evNone, 1: evNone, 2: evNone}, Apology: apNone}
	misser := ByzStrategy{Commit: cmCorrect, Eval: map[int]int{0: evWrong, 1: evCorrect}, Apology: apCorrect, DealOff: 1, AccOff: 1, ApoOff: 1}
	return []c20Scenario{
		{Name: "all-honest", Plain: true, Sc: Scenario{N: 3, T: 2, L: 8, Order: []int{0, 1, 2}, Byz: map[int]ByzStrategy{}, Fair: true}},
		{Name: "byzantine-dealer-stays-qualified", Plain: true, Sc: Scenario{N: 3, T: 2, L: 8, Order: []int{2, 0, 1}, Byz: map[int]ByzStrategy{2: byzDealer}, Fair: true, ForkEnabled: true}},
		{Name: "byzantine-dealer-disqualified", Plain: true, Sc: Scenario{N: 4, T: 2, L: 8, Order: []int{3, 1, 0, 2}, Byz: map[int]ByzStrategy{3: silent}, Fair: true}},
		// honest k0 gets a bad eval and sleeps through the accusing phase: its DKG fails, k1's succeeds
		{Name: "one-honest-keyper-fails", Plain: true, Sc: Scenario{N: 3, T: 2, L: 8, Order: []int{1, 2, 0}, Byz: map[int]ByzStrategy{2: misser}, Stalls: []stall{{Pos: 0, From: 6, Len: 12}}}},
		// two overlapping key generations of two keyper sets (index 1 and 2) with exactly the same
		// ordered keyper list; the second starts 1, 4, 10, 18 blocks after the first
		{Name: "overlap-identical-list+1", Plain: true, Sc: Scenario{N: 3, T: 2, L: 8, Order: []int{0, 1, 2}, Byz: map[int]ByzStrategy{}, Fair: true, Overlap: &overlapSpec{At: 0, Rot: 0}}},
		{Name: "overlap-identical-list+4", Plain: true, Sc: Scenario{N: 3, T: 2, L: 8, Order: []int{2, 0, 1}, Byz: map[int]ByzStrategy{}, Fair: true, ForkEnabled: true, Overlap: &overlapSpec{At: 4, Rot: 0}}},
		{Name: "overlap-identical-list+10", Plain: true, Sc: Scenario{N: 4, T: 2, L: 8, Order: []int{3, 1, 0, 2}, Byz: map[int]ByzStrategy{}, Fair: true, Overlap: &overlapSpec{At: 10, Rot: 0}}},
		{Name: "overlap-identical-list+18", Plain: true, Sc: Scenario{N: 3, T: 2, L: 8, Order: []int{1, 2, 0}, Byz: map[int]ByzStrategy{}, Fair: true, Overlap: &overlapSpec{At: 18, Rot: 0}}},
		{Name: "overlap-rotated-list+4", Plain: true, Sc: Scenario{N: 3, T: 2, L: 8, Order: []int{0, 1, 2}, Byz: map[int]ByzStrategy{}, Fair: true, Overlap: &overlapSpec{At: 4, Rot: 1}}},
		// t = n and one keyper misses the dealing phase: the DKG fails for everybody, three
		// DKGResult(false) votes make shuttermint start a new eon for the same keyper set, which succeeds
		{Name: "failed-then-restarted", Plain: true, Sc: Scenario{N: 3, T: 3, L: 8, Order: []int{0, 1, 2}, Byz: map[int]ByzStrategy{}, Stalls: []stall{{Pos: 2, From: 2, Len: 8}}}},
	}
}

// eonStarts lists (eon, height) of every EonStarted event on chain.
func (r *Run) eonStarts() [][2]int64 {
	var res [][2]int64
	for _, tx := range r.chain.AllTxs {
		for _, ev := range tx.Events {
			e, err := shutterevents.MakeEvent(ev, tx.Height)
			if err != nil {
				continue
			}
			if es, ok := e.(*shutterevents.EonStarted); ok {
				res = append(res, [2]int64{int64(es.Eon), tx.Height})
			}
		}
	}
	return res
}

// runToQuiescence continues a finished run through every further eon that
// shuttermint starts (restart after a failed DKG), under the plain schedule.
func (r *Run) runToQuiescence() {
	for guard := 0; guard < 3; guard++ {
		starts := r.eonStarts()
		last := starts[len(starts)-1]
		end := last[1] + 3*r.sc.L + 8
		if r.chain.OpenHeight() > end {
			return
		}
		for r.chain.OpenHeight() <= end {
			r.l1++
			r.block(false)
		}
	}
}

type c20Pub struct {
	Eon, Activation, ConfigIndex uint64
	Key                          string
}

func c20PubString(ps []c20Pub) string {
	var s []string
	for _, p := range ps {
		s = append(s, fmt.Sprintf("(eon=%d act=%d cfg=%d key=%x)", p.Eon, p.Activation, p.ConfigIndex, sha8([]byte(p.Key))))
	}
	sort.Strings(s)
	return strings.Join(s, " ")
}

func TestC20_FinalizedDKGQueuesEonKey(t *testing.T) {
	rec := recorder("C20")
	rec.AddRule("production side (package dkgprops): complete DKG runs over faketm with the real follower code on pgfake (fixed scenarios: all honest; Byzantine dealer that stays qualified; Byzantine dealer disqualified, n=4; one honest keyper whose DKG fails while the other succeeds; t=n DKG that fails for everybody and is restarted by shuttermint as a new eon; two overlapping key generations of keyper sets 1 and 2 with the identical ordered keyper list, the second starting 1/4/10/18 blocks after the first, and one with a rotated list; plus scenarios drawn from C07's generator). Per honest keyper and eon: a dkg_result row with success => exactly one outgoing_eon_keys row for that eon whose key is the PublicKey of its stored result and the key of every other successful honest keyper; failure or no result => no row. Then the real eonPubKeyHandler (alternating broadcast / callback mode) runs on that database: it must publish exactly these keys, each once, with its eon number and the activation block and keyper-set index of that eon's keyper set (set 1 / block 100; in scenarios with two overlapping key generations also set 2 / block 200), correctly signed in broadcast mode, and leave the table empty; a second tick publishes nothing. non-trivial = the run has a Byzantine keyper, a failed DKG row or a restarted eon; distinct = scenario + schedule")
	rec.Assume(
		"pgfake executes the repository's schema and queries like PostgreSQL",
		"faketm delivers broadcasts into the open block immediately; sequential schedule",
		"the keyper belongs to the keyper set of every eon in these runs (keyper set 1, activation block 100; with overlapping eons also set 2, activation block 200, same members)",
	)
	ctx := context.Background()
	scs := c20Fixed()
	nGen := N(30, 2400)
	for i := 0; i < nGen; i++ {
		id := i*nshards + shard
		ch := &detChooser{seed: fmt.Sprintf("c20/%d/%d", seed, id)}
		scs = append(scs, c20Scenario{Name: fmt.Sprintf("generated-%d", id), Sc: genScenario(ch), Seed: fmt.Sprintf("c20s/%d/%d", seed, id)})
	}
	for idx, cs := range scs {
		if cs.Seed == "" && !mySlice(idx) {
			continue
		}
		failed := false
		fail := func(sig, format string, args ...any) {
			if failed {
				return
			}
			failed = true
			detail := fmt.Sprintf("scenario %s :: ", cs.Name) + fmt.Sprintf(format, args...)
			path := rec.SaveReplay(t.Name(), fmt.Sprintf("c20-%s-seed%d", cs.Name, seed), map[string]any{"scenario": cs.Name, "seed": seed, "text": cs.Sc.String()})
			rec.Violation(sig, detail, path)
			t.Errorf("VERIF-FAIL signature=%s :: %s", sig, detail)
		}
		var ch chooser = fixedChooser{}
		if cs.Seed != "" {
			ch = &detChooser{seed: cs.Seed}
		}
		r, err := newRun(ctx, cs.Sc, ch)
		if err != nil {
			rec.Inconclusive("harness: " + err.Error())
			t.Fatalf("inconclusive: %v", err)
		}
		r.plainSchedule = cs.Plain
		err = r.execute()
		if err == nil {
			r.runToQuiescence()
		}
		if u := r.unsupported(); len(u) > 0 {
			r.close()
			rec.Inconclusive(fmt.Sprintf("pgfake: unsupported SQL: %v", u))
			t.Fatalf("inconclusive: %v", u)
		}
		if err != nil {
			fail("no-progress", "%v\n%s", err, r.history())
			r.close()
			continue
		}
		if len(r.keyperPanics)+len(r.chain.AppPanics) > 0 {
			fail("panic", "keyper panics %v, app panics %v\n%s", r.keyperPanics, r.chain.AppPanics, r.history())
		}
		starts := r.eonStarts()
		eonMeta := map[uint64][2]uint64{} // eon -> (activation block, keyper-set index) from the EonStarted events
		for _, tx := range r.chain.AllTxs {
			for _, ev := range tx.Events {
				if e, err := shutterevents.MakeEvent(ev, tx.Height); err == nil {
					if es, ok := e.(*shutterevents.EonStarted); ok {
						eonMeta[es.Eon] = [2]uint64{es.ActivationBlockNumber, es.KeyperConfigIndex}
					}
				}
			}
		}
		for eon, m := range eonMeta {
			// the harness's two keyper sets
			if !(m == [2]uint64{keyperSetActivation, 1} || m == [2]uint64{keyperSet2Activation, 2}) {
				fail("unexpected-eon", "eon %d announced with activation block %d, keyper set %d", eon, m[0], m[1])
			}
		}
		// --- per keyper: dkg_result rows vs outgoing_eon_keys rows
		type res struct {
			success bool
			key     *shcrypto.EonPublicKey
		}
		keysByEon := map[uint64][]*shcrypto.EonPublicKey{} // keys of the successful honest keypers
		nSucc, nFail := 0, 0
		expected := map[int][]c20Pub{}
		for _, p := range cs.Sc.honest() {
			n := r.nodes[p]
			results := map[uint64]res{}
			for _, row := range n.Srv.Rows("dkg_result") {
				eon := uint64(row["eon"].(int64))
				x := res{success: row["success"].(bool)}
				if x.success {
					b, _ := row["pure_result"].([]byte)
					pr, err := shdb.DecodePureDKGResult(b)
					if err != nil {
						fail("result-undecodable", "k%d eon %d: %v", p, eon, err)
						continue
					}
					x.key = pr.PublicKey
					keysByEon[eon] = append(keysByEon[eon], pr.PublicKey)
					nSucc++
				} else {
					nFail++
				}
				results[eon] = x
			}
			queued := map[uint64][][]byte{}
			for _, row := range n.Srv.Rows("outgoing_eon_keys") {
				eon := uint64(row["eon"].(int64))
				b, _ := row["eon_public_key"].([]byte)
				queued[eon] = append(queued[eon], b)
			}
			for eon, x := range results {
				rows := queued[eon]
				switch {
				case x.success && len(rows) != 1:
					fail("eon-key-not-queued-exactly-once", "k%d recorded a successful DKG for eon %d but has %d outgoing_eon_keys rows for it\n%s", p, eon, len(rows), r.history())
				case x.success:
					got := new(shcrypto.EonPublicKey)
					if err := got.GobDecode(rows[0]); err != nil || !got.Equal(x.key) {
						fail("queued-key-differs-from-result", "k%d eon %d: the queued eon public key is not the PublicKey of the stored DKG result (decode err=%v)\n%s", p, eon, err, r.history())
					}
					// activation block and keyper-set index of the eon as shuttermint announced them
					meta, ok := eonMeta[eon]
					if !ok {
						fail("result-for-unknown-eon", "k%d has a DKG result for eon %d that shuttermint never started\n%s", p, eon, r.history())
					}
					expected[p] = append(expected[p], c20Pub{eon, meta[0], meta[1], string(rows[0])})
				case len(rows) != 0:
					fail("eon-key-queued-for-failed-dkg", "k%d: DKG of eon %d failed but %d outgoing_eon_keys rows exist\n%s", p, eon, len(rows), r.history())
				}
			}
			for eon, rows := range queued {
				if _, ok := results[eon]; !ok {
					fail("eon-key-queued-without-result", "k%d has %d outgoing_eon_keys rows for eon %d without a dkg_result row\n%s", p, len(rows), eon, r.history())
				}
			}
		}
		for eon, ks := range keysByEon {
			for _, k := range ks[1:] {
				if !k.Equal(ks[0]) {
					fail("agree-pubkey", "successful honest keypers hold different keys for eon %d\n%s", eon, r.history())
				}
			}
		}
		// --- the real publication handler on these databases
		for i, p := range cs.Sc.honest() {
			n := r.nodes[p]
			msging, err := p2ptest.NewTestMessaging()
			if err != nil {
				t.Fatalf("messaging: %v", err)
			}
			var published []c20Pub
			broadcast := (i+idx)%2 == 0
			var h *keyper.VerifEonPubKeyHandler
			if broadcast {
				h = keyper.VerifNewEonPubKeyHandler(n.Cfg, n.Pool, msging, nil, true)
			} else {
				h = keyper.VerifNewEonPubKeyHandler(n.Cfg, n.Pool, msging, func(_ context.Context, k keyper.EonPublicKey) error {
					published = append(published, c20Pub{k.Eon, k.ActivationBlock, k.KeyperConfigIndex, string(k.PublicKey)})
					return nil
				}, false)
			}
			for tick := 0; tick < 2; tick++ {
				if err := h.QueryAndHandle(ctx); err != nil {
					fail("publication-error", "k%d: polling tick %d failed: %v\n%s", p, tick, err, r.history())
				}
			}
			if broadcast {
				for _, sm := range msging.SentMessages {
					m, ok := sm.Message.(*p2pmsg.EonPublicKey)
					if !ok {
						fail("unexpected-message", "k%d broadcast a %T", p, sm.Message)
						continue
					}
					if ok, err := p2pmsg.VerifySignature(m, n.Addr); err != nil || !ok || m.InstanceId != n.Cfg.InstanceID {
						fail("bad-broadcast-signature", "k%d: EonPublicKey message for eon %d not signed by the keyper (%v) or instance id %d", p, m.Eon, err, m.InstanceId)
					}
					published = append(published, c20Pub{m.Eon, m.ActivationBlock, m.KeyperConfigIndex, string(m.PublicKey)})
				}
			}
			if c20PubString(published) != c20PubString(expected[p]) {
				fail("eon-key-not-published-exactly-once", "k%d: keys of its successful DKGs: [%s]\npublished by the handler: [%s]\n%s", p, c20PubString(expected[p]), c20PubString(published), r.history())
			}
			if left := n.Srv.Rows("outgoing_eon_keys"); len(left) != 0 {
				fail("outbox-not-empty", "k%d: %d rows left in outgoing_eon_keys after two polling ticks", p, len(left))
			}
			if broadcast {
				rec.Label("mode:broadcast")
			} else {
				rec.Label("mode:callback")
			}
		}
		if u := r.unsupported(); len(u) > 0 {
			r.close()
			rec.Inconclusive(fmt.Sprintf("pgfake: unsupported SQL: %v", u))
			t.Fatalf("inconclusive: %v", u)
		}
		labels := []string{"dkgprops:finished-dkg-run", fmt.Sprintf("dkgprops:n=%d", cs.Sc.N)}
		if cs.Seed == "" {
			labels = append(labels, "dkgprops:scenario:"+cs.Name)
		} else {
			labels = append(labels, "dkgprops:scenario:generated")
		}
		if len(cs.Sc.Byz) > 0 {
			labels = append(labels, "dkgprops:byzantine-participant")
		}
		if nFail > 0 {
			labels = append(labels, "dkgprops:failed-dkg-row")
		}
		if nSucc > 0 {
			labels = append(labels, "dkgprops:successful-dkg-row")
		}
		if cs.Sc.Overlap != nil && len(eonMeta) > 1 {
			labels = append(labels, "dkgprops:two-overlapping-eons")
			if cs.Sc.Overlap.Rot%cs.Sc.N == 0 {
				labels = append(labels, "dkgprops:overlapping-eons-identical-ordered-keyper-list")
			}
		}
		nSets := map[uint64]bool{}
		for _, m := range eonMeta {
			nSets[m[1]] = true
		}
		if len(starts) > len(nSets) {
			labels = append(labels, "dkgprops:restarted-eon")
		}
		rec.LabelN("dkgprops:successful-dkg-rows", nSucc)
		rec.LabelN("dkgprops:failed-dkg-rows", nFail)
		rec.Case("dkgprops "+cs.Name+" "+cs.Sc.String()+" | "+strings.Join(r.sched, " "), len(cs.Sc.Byz) > 0 || nFail > 0 || len(starts) > 1, labels...)
		r.close()
	}
}
