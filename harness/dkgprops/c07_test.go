package dkgprops

// C07 - honest keypers agree on the eon key despite Byzantine participants.
//
// Oracles that are the statement: among honest keypers whose dkg_result says
// success - same eon public key, same public key shares, each secret share
// verifies against its public share, every t-subset of them decrypts a
// message encrypted to the eon key, their DKGResult votes on chain match
// their rows; all honest + every message inside its phase => all succeed; shuttermint
// never answers an honest keyper's DKG message for a started eon with an error;
// after every completed main-loop iteration every DKG of an honest keyper is in
// the phase that the last applied block's height demands (per eon);
// shuttermint never panics and its replicas agree.
//
// Derived oracles (signature prefix "derived-", stronger than the statement,
// switched by c07Derived): the eon key equals the sum of the commitments of
// exactly the dealers that an independent reading of the chain record
// qualifies (commitment of the right degree in the dealing phase; every
// accusation made in the accusing phase answered in the apologizing phase by
// an apology that verifies against the commitment), and with at most n-t
// Byzantine keypers, a fair schedule and all honest messages inside their
// phases every honest keyper succeeds. They are what makes the check notice
// changes of the phase/height logic and of the index<->address mapping that
// all honest keypers would make in the same way and therefore still "agree".

import (
	"context"
	"encoding/json"
	"fmt"
	"math/bits"
	"os"
	"strings"
	"testing"

	"pgregory.net/rapid"
)

var c07Derived = os.Getenv("VERIF_C07_NO_DERIVED") == ""

type rapidChooser struct{ rt *rapid.T }

// Pick draws an index with the given weights from fair coin flips (rapid's
// integer generators favour small values and the upper bound, which would
// distort the weights); everything shrinks towards index 0.
func (c rapidChooser) Pick(label string, weights ...int) int {
	total := 0
	for _, w := range weights {
		total += w
	}
	if total <= 1 || len(weights) <= 1 {
		return 0
	}
	nbits := bits.Len(uint(total - 1))
	for {
		x := 0
		for i := nbits - 1; i >= 0; i-- {
			if rapid.Bool().Draw(c.rt, label) {
				x |= 1 << i
			}
		}
		if x >= total {
			continue
		}
		for i, w := range weights {
			if x < w {
				return i
			}
			x -= w
		}
	}
}

func genStrategy(ch chooser, n, t, self int, L int64) ByzStrategy {
	s := ByzStrategy{Eval: map[int]int{}}
	s.Commit = ch.Pick("commit", 4, 1, 2, 2, 1)
	s.DegDelta = []int{1, -1}[ch.Pick("degDelta", 1, 1)]
	if t == 1 {
		s.DegDelta = 1
	}
	for p := 0; p < n; p++ {
		if p != self {
			s.Eval[p] = ch.Pick("eval", 3, 2, 1)
		}
	}
	if ch.Pick("accuse", 1, 1) == 1 {
		for p := 0; p < n; p++ {
			if p != self && ch.Pick("accuseWho", 1, 1) == 1 {
				s.Accuse = append(s.Accuse, p)
			}
		}
		if len(s.Accuse) == 0 {
			s.Accuse = []int{(self + 1) % n}
		}
	}
	s.Apology = ch.Pick("apology", 3, 2, 2)
	s.AnswerLate = ch.Pick("answerLate", 3, 1) == 1
	s.Repeat = ch.Pick("repeat", 2, 1) == 1
	s.ExtraApology = ch.Pick("extraApology", 3, 1, 1)
	s.LateDeal = ch.Pick("lateDeal", 6, 1) == 1
	s.LateAcc = ch.Pick("lateAcc", 3, 1) == 1
	s.LateApo = ch.Pick("lateApo", 3, 1) == 1
	s.EarlyAcc = !s.LateAcc && ch.Pick("earlyAcc", 4, 1) == 1
	s.EarlyApo = !s.LateApo && ch.Pick("earlyApo", 4, 1) == 1
	uniform := make([]int, L)
	for i := range uniform {
		uniform[i] = 1
	}
	s.DealOff = ch.Pick("dealOff", uniform...)
	s.AccOff = ch.Pick("accOff", uniform...)
	s.ApoOff = ch.Pick("apoOff", uniform...)
	return s
}

func genScenario(ch chooser) Scenario {
	sc := Scenario{Byz: map[int]ByzStrategy{}}
	sc.N = 3 + ch.Pick("n", 3, 2, 2)
	tw := make([]int, sc.N)
	for i := range tw {
		tw[i] = 3
	}
	tw[0] = 1      // t=1 is legal but degenerate (constant polynomials)
	tw[sc.N-1] = 1 // t=n leaves no room for Byzantine keypers
	sc.T = 1 + ch.Pick("t", tw...)
	sc.L = []int64{8, 10, 6}[ch.Pick("L", 3, 2, 1)]
	// keyper set order: a permutation of n universe keys
	rest := []int{0, 1, 2, 3, 4}
	for len(sc.Order) < sc.N {
		w := make([]int, len(rest))
		for i := range w {
			w[i] = 1
		}
		i := ch.Pick("orderKey", w...)
		sc.Order = append(sc.Order, rest[i])
		rest = append(rest[:i], rest[i+1:]...)
	}
	sc.ForkEnabled = ch.Pick("fork", 1, 1) == 1
	maxByz := sc.N - sc.T
	nb := 0
	if maxByz > 0 {
		w := make([]int, maxByz+1)
		w[0] = 1
		for i := 1; i <= maxByz; i++ {
			w[i] = 4
		}
		nb = ch.Pick("nByz", w...)
	}
	cand := make([]int, sc.N)
	for i := range cand {
		cand[i] = i
	}
	for len(sc.Byz) < nb {
		w := make([]int, len(cand))
		for i := range w {
			w[i] = 1
		}
		i := ch.Pick("byzWho", w...)
		p := cand[i]
		cand = append(cand[:i], cand[i+1:]...)
		sc.Byz[p] = ByzStrategy{}
	}
	for p := range sc.Byz {
		_ = p
	}
	for _, p := range sortedKeys(sc.Byz) {
		sc.Byz[p] = genStrategy(ch, sc.N, sc.T, p, sc.L)
	}
	// two overlapping key generations: a second keyper set becomes due while
	// the first DKG is in a drawn phase
	if ch.Pick("overlap", 5, 1) == 1 {
		L := int(sc.L)
		phase := ch.Pick("overlapPhase", 1, 1, 1)
		// dealing: from offset 0 the keypers vote for set 2 right after their vote for set 1
		// (before they have even seen EonStarted of the first eon), so the second eon can start
		// one block after the first and every DKG message of the first eon comes after it
		lo, hi := 0, L-2
		if phase > 0 {
			lo, hi = phase*L, (phase+1)*L-2
		}
		w := make([]int, hi-lo+1)
		for i := range w {
			w[i] = 1
		}
		rotW := make([]int, sc.N)
		for i := range rotW {
			rotW[i] = 1
		}
		at := lo + ch.Pick("overlapAt", w...)
		// in a third of these runs the second eon starts exactly one or two phase lengths
		// after the first, so that phase changes of both eons (and the finalization of the
		// first) fall into the same block
		if k := ch.Pick("overlapAligned", 2, 1, 1); k > 0 {
			at = k * L
		}
		rot := ch.Pick("overlapRot", rotW...)
		if ch.Pick("overlapSameList", 3, 1) == 1 {
			rot = 0 // keyper set 2 has exactly the same ordered keyper list as set 1
		}
		sc.Overlap = &overlapSpec{At: at, Rot: rot}
	}
	// Template "one honest keyper misses its accusation": a Byzantine dealer
	// that otherwise stays qualified gives honest keyper A a bad eval and A
	// sleeps through the accusing phase. A must then report failure while
	// the other honest keypers succeed with a key that includes the
	// Byzantine dealer - the situation in which "agreement among those that
	// report success" is a real constraint.
	if hs := sc.honest(); len(sc.Byz) > 0 && len(hs) >= 2 && ch.Pick("template", 5, 1) == 1 {
		w := make([]int, len(hs))
		for i := range w {
			w[i] = 1
		}
		a := hs[ch.Pick("templateVictim", w...)]
		b := sortedKeys(sc.Byz)[0]
		st := sc.Byz[b]
		st.Commit, st.LateDeal = cmCorrect, false
		st.Eval[a] = []int{evWrong, evNone}[ch.Pick("templateEval", 1, 1)]
		st.Apology, st.LateApo, st.EarlyApo, st.AnswerLate = apCorrect, false, false, false
		sc.Byz[b] = st
		L := int(sc.L)
		sc.Fair = false
		sc.Stalls = []stall{{Pos: a, From: L - 3 + ch.Pick("templateFrom", 1, 1, 1), Len: L + 3 + ch.Pick("templateLen", 1, 1, 1)}}
		return sc
	}
	sc.Fair = ch.Pick("fair", 3, 1) == 0
	if !sc.Fair {
		hs := sc.honest()
		ns := 1 + ch.Pick("nStalls", 2, 1)
		for i := 0; i < ns; i++ {
			w := make([]int, len(hs))
			for j := range w {
				w[j] = 1
			}
			who := hs[ch.Pick("stallWho", w...)]
			// a window around a phase boundary (the keyper misses the start
			// of dealing / accusing / apologizing) or anywhere
			L := int(sc.L)
			var from int
			switch kind := ch.Pick("stallKind", 1, 1, 2, 1); kind {
			case 0:
				fromW := make([]int, 3*L)
				for j := range fromW {
					fromW[j] = 1
				}
				from = ch.Pick("stallFrom", fromW...)
			default:
				from = (kind-1)*L - 3 + ch.Pick("stallFromNear", 1, 1, 1, 1)
				if from < 0 {
					from = 0
				}
			}
			var ln int
			if from == 0 || ch.Pick("stallShort", 1, 1) == 0 {
				lenW := make([]int, L)
				for j := range lenW {
					lenW[j] = 1
				}
				ln = 1 + ch.Pick("stallLen", lenW...)
			} else {
				// long enough to sleep through a whole phase
				ln = L - 1 + ch.Pick("stallLenLong", 1, 1, 1, 1, 1, 1)
			}
			sc.Stalls = append(sc.Stalls, stall{Pos: who, From: from, Len: ln})
		}
	}
	return sc
}

const c07Rule = "case = (n in 3..5, t in 1..n, phase length L in {6,8,10} blocks, keyper-set order, check-in fork on/off, Byzantine subset of size <= n-t each with a strategy commitment{correct,none,wrong degree,duplicate,points at infinity} x eval per receiver{correct,wrong,none} x accusation{none,false against a drawn set} x apology{correct,wrong,none} x repeated-address copies {none, before every accusation/apology/eval message a copy whose address list repeats its first entry} x apology with an extra entry {none, behind, in front of the genuine ones} addressed to a keyper that never accused the sender and carrying an out-of-range evaluation x timing per message class{offset inside the phase, first block after the phase; accusations and apologies also 1-3 blocks before their phase}, and a block schedule for 3L+ blocks: order of the honest keypers' sync+send steps per block, per-step send budget {unlimited,1,2}, extra steps, position of the Byzantine transactions inside the block; 1/4 of the runs are unfair: an honest keyper takes no step for 1..L blocks; in 1/6 of the runs a second keyper set (the same keypers in rotated order - in a quarter of these runs in exactly the same order -, index 2) becomes due on the main chain at a drawn block of the dealing, accusing or apologizing phase of the first DKG, the keypers vote for it and a second eon's DKG overlaps the first (in a third of them exactly one or two phase lengths later); every oracle is then evaluated for both eons, Byzantine keypers act in the first eon only and are silent members of the second); honest keypers run smobserver.SyncAppWithDB + KeyperCore.handleOnChainChanges + fx.SendShutterMessages on their own pgfake database against the real ShutterApp behind faketm. Non-trivial = the chain carries >=1 accusation made in the accusing phase, or a Byzantine DKG message accepted outside its phase or answered 'seen' (duplicate), or a wrong-degree commitment. Distinct = hash of scenario + schedule."

func c07Labels(sc Scenario, st agreeStats, ref *refRecord, r *Run) (labels []string, nontrivial bool) {
	labels = append(labels, fmt.Sprintf("n=%d", sc.N), fmt.Sprintf("t=%d", sc.T), fmt.Sprintf("L=%d", sc.L), fmt.Sprintf("byz=%d", len(sc.Byz)))
	if len(sc.Byz) == 0 {
		labels = append(labels, "all-honest")
	}
	if sc.Fair {
		labels = append(labels, "schedule:fair")
	} else {
		labels = append(labels, "schedule:unfair(stall)")
	}
	wrongDeg := false
	seen := map[string]bool{}
	add := func(l string) {
		if !seen[l] {
			seen[l] = true
			labels = append(labels, l)
		}
	}
	for _, p := range sortedKeys(sc.Byz) {
		s := sc.Byz[p]
		add("byz-commit:" + cmNames[s.Commit])
		if s.Commit == cmWrongDegree {
			wrongDeg = true
		}
		for _, e := range s.Eval {
			add("byz-eval:" + evNames[e])
		}
		if len(s.Accuse) > 0 {
			add("byz-accusation:sent")
		} else {
			add("byz-accusation:none")
		}
		add("byz-apology:" + apNames[s.Apology])
		if s.Repeat {
			add("byz-repeated-address-in-a-list")
		}
		if s.ExtraApology != 0 && s.Apology != apNone {
			add("byz-apology-with-unsolicited-out-of-range-entry")
		}
		if s.LateDeal {
			add("byz-timing:dealing-late")
		}
		if s.LateAcc && len(s.Accuse) > 0 {
			add("byz-timing:accusation-late")
		}
		if s.LateApo && s.Apology != apNone {
			add("byz-timing:apology-late")
		}
		if s.EarlyAcc && len(s.Accuse) > 0 {
			add("byz-timing:accusation-early")
		}
		if s.EarlyApo && s.Apology != apNone {
			add("byz-timing:apology-early")
		}
	}
	honestAccuses, byzAccusesHonest := false, false
	for k := range ref.Accusations {
		_, aByz := sc.Byz[k[0]]
		_, dByz := sc.Byz[k[1]]
		if !aByz {
			honestAccuses = true
		}
		if aByz && !dByz {
			byzAccusesHonest = true
		}
	}
	if len(ref.Accusations) > 0 {
		add("chain:accusations-in-phase")
	}
	if honestAccuses {
		add("chain:honest-accuses")
	}
	if byzAccusesHonest {
		add("chain:false-accusation-of-honest")
	}
	honestApology, byzApology := false, false
	for k := range ref.Apologies {
		if _, b := sc.Byz[k[1]]; b {
			byzApology = true
		} else {
			honestApology = true
		}
	}
	if honestApology {
		add("chain:honest-apology")
	}
	if byzApology {
		add("chain:byzantine-apology")
	}
	if ref.LateByz > 0 {
		add("chain:byzantine-message-outside-phase")
	}
	if ref.DupByz > 0 {
		add("chain:byzantine-duplicate-seen")
	}
	for p := range ref.Disq {
		if _, b := sc.Byz[p]; b {
			add("ref:byzantine-disqualified")
		} else {
			add("ref:honest-disqualified")
		}
	}
	for p := range sc.Byz {
		if _, d := ref.Disq[p]; !d {
			add("ref:byzantine-qualified")
		}
	}
	if !st.Premise {
		add("premise:honest-message-outside-phase")
	}
	hs := len(sc.honest())
	switch {
	case st.Successes == hs:
		add("outcome:all-honest-succeed")
	case st.Successes == 0:
		add("outcome:no-honest-success")
	default:
		add("outcome:some-honest-succeed")
	}
	if st.NoRow > 0 {
		add("outcome:honest-without-result")
	}
	if len(r.stepErrors) > 0 {
		add("keyper-step-error")
	}
	if st.Subsets > 0 {
		add("decryption-subsets-tested")
	}
	nontrivial = len(ref.Accusations) > 0 || ref.LateByz > 0 || ref.DupByz > 0 || (wrongDeg && anyCommitOnChain(sc, ref))
	return labels, nontrivial
}

func anyCommitOnChain(sc Scenario, ref *refRecord) bool {
	for p, s := range sc.Byz {
		if s.Commit == cmWrongDegree {
			if _, ok := ref.CommitH[p]; ok {
				return true
			}
		}
	}
	return false
}

// runC07Case executes one scenario and evaluates the oracles.
func runC07CasePlain(rec *Recorder, sc Scenario, fail failFn) string {
	return runC07CaseX(rec, sc, fixedChooser{}, fail, true)
}

func runC07Case(rec *Recorder, sc Scenario, ch chooser, fail failFn) (inconclusive string) {
	return runC07CaseX(rec, sc, ch, fail, false)
}

func runC07CaseX(rec *Recorder, sc Scenario, ch chooser, fail failFn, plain bool) (inconclusive string) {
	ctx := context.Background()
	r, err := newRun(ctx, sc, ch)
	if err != nil {
		return "harness: " + err.Error()
	}
	defer r.close()
	r.plainSchedule = plain
	if err := r.execute(); err != nil {
		if u := r.unsupported(); len(u) > 0 {
			return fmt.Sprintf("pgfake: unsupported SQL: %v", u)
		}
		fail("no-progress", "%v\n%s", err, r.history())
		return ""
	}
	if u := r.unsupported(); len(u) > 0 {
		return fmt.Sprintf("pgfake: unsupported SQL: %v", u)
	}
	st, ref := r.checkAgreement(fail, c07Derived)
	labels, nt := c07Labels(sc, st, ref, r)
	if sc.Overlap != nil {
		phase := []string{"dealing", "accusing", "apologizing"}[min(2, sc.Overlap.At/int(sc.L))]
		labels = append(labels, "overlapping-eons:set2-due-while-"+phase)
		if r.h1 == 0 {
			labels = append(labels, "overlapping-eons:second-eon-did-not-start")
		} else {
			labels = append(labels, "overlapping-eons:second-eon-starts-in-"+[]string{"dealing", "accusing", "apologizing", "after-finalize"}[min(3, int((r.h1-r.h0)/sc.L))])
			if sc.Overlap.Rot%sc.N == 0 {
				labels = append(labels, "overlapping-eons:identical-ordered-keyper-list")
			}
			if (r.h1-r.h0)%sc.L == 0 {
				labels = append(labels, "overlapping-eons:start-heights-a-multiple-of-the-phase-length-apart")
			}
			// the same oracles for the second eon (positions of keyper set 2;
			// the Byzantine keypers are silent there)
			r.switchToSecondEon()
			st2, _ := r.checkAgreement(func(sig, format string, args ...any) {
				fail(sig, "[second, overlapping eon] "+format, args...)
			}, c07Derived)
			switch {
			case st2.Successes == len(r.sc.honest()):
				labels = append(labels, "overlapping-eons:second-eon-all-honest-succeed")
			default:
				labels = append(labels, "overlapping-eons:second-eon-not-all-succeed")
			}
			if !st2.Premise {
				labels = append(labels, "overlapping-eons:second-eon-honest-message-outside-phase")
			}
			rec.LabelN("decryption-subsets", st2.Subsets)
		}
	}
	rec.Case(sc.String()+" | "+strings.Join(r.sched, " "), nt, labels...)
	rec.LabelN("decryption-subsets", st.Subsets)
	return ""
}

func c07Assumptions(rec *Recorder) {
	rec.Assume(
		"pgfake (in-process PostgreSQL stand-in) executes the keyper's SQL like PostgreSQL (READ COMMITTED)",
		"faketm: a transaction is delivered into the open block at the moment BroadcastTxCommit is called (Tendermint would return only after that block is committed); the height lag of the follower (events of height h are handled when block h+2 exists, answers land in h+3 at the earliest) is reproduced",
		"the schedule is sequential (no two keypers run concurrently)",
		"shlib puredkg/shcrypto and blst are dependencies, a failure rooted there would surface too",
		"crypto/rand inside the code under test makes polynomials differ between runs of the same case; oracles compare semantic outcomes only",
	)
}

func TestC07_Agreement(t *testing.T) {
	rec := recorder("C07")
	rec.AddRule(c07Rule)
	c07Assumptions(rec)
	var inconclusive string
	runRapid(t, N(320, 24000), func(rt *rapid.T) {
		if inconclusive != "" {
			return
		}
		ch := rapidChooser{rt}
		sc := genScenario(ch)
		inc := runC07Case(rec, sc, ch, func(sig, format string, args ...any) { fatalf(rt, sig, format, args...) })
		if inc != "" {
			inconclusive = inc
		}
	})
	if inconclusive != "" {
		rec.Inconclusive(inconclusive)
		t.Errorf("inconclusive: %s", inconclusive)
	}
}

// exhaustive strategy alphabet for n=3, t=2 with one Byzantine keyper.
type exhCase struct {
	ByzPos                         int
	Commit, EvalA, EvalB, Acc, Apo int
	Timing                         int // 0 all in phase, 1 dealing late, 2 accusation late, 3 apology late
}

func (c exhCase) scenario(idx int) Scenario {
	others := []int{}
	for p := 0; p < 3; p++ {
		if p != c.ByzPos {
			others = append(others, p)
		}
	}
	s := ByzStrategy{Commit: c.Commit, DegDelta: []int{1, -1}[idx%2], Eval: map[int]int{others[0]: c.EvalA, others[1]: c.EvalB}, Apology: c.Apo, Repeat: idx%3 == 1, ExtraApology: []int{0, 0, 1, 2}[idx%4]}
	switch c.Acc {
	case 1:
		s.Accuse = []int{others[0]}
	case 2:
		s.Accuse = []int{others[0], others[1]}
	}
	s.LateDeal, s.LateAcc, s.LateApo = c.Timing == 1, c.Timing == 2, c.Timing == 3
	L := []int64{8, 10}[idx%2]
	s.DealOff, s.AccOff, s.ApoOff = int(hash64(fmt.Sprint("d", idx))%uint64(L)), int(hash64(fmt.Sprint("a", idx))%uint64(L)), int(hash64(fmt.Sprint("p", idx))%uint64(L))
	orders := [][]int{{0, 1, 2}, {2, 0, 1}, {1, 2, 0}, {4, 3, 1}}
	return Scenario{N: 3, T: 2, L: L, Order: orders[idx%len(orders)], Byz: map[int]ByzStrategy{c.ByzPos: s}, ForkEnabled: idx%3 == 0, Fair: true}
}

func TestC07_ExhaustiveN3(t *testing.T) {
	rec := recorder("C07")
	rec.AddRule(c07Rule)
	rec.AddRule("exhaustive part: n=3,t=2, one Byzantine keyper, every strategy of commitment(5) x eval to each honest keyper(3x3) x accusation{none, one honest, both honest} x apology(3) x timing{all in phase, dealing late, accusation late, apology late} = 1620 strategies, each under a fair schedule derived from the case index (thorough: 3 schedules each; quick: a 1/20 slice chosen by the seed)")
	c07Assumptions(rec)
	var cases []exhCase
	for cm := 0; cm < 5; cm++ {
		for ea := 0; ea < 3; ea++ {
			for eb := 0; eb < 3; eb++ {
				for ac := 0; ac < 3; ac++ {
					for ap := 0; ap < 3; ap++ {
						for tm := 0; tm < 4; tm++ {
							cases = append(cases, exhCase{Commit: cm, EvalA: ea, EvalB: eb, Acc: ac, Apo: ap, Timing: tm})
						}
					}
				}
			}
		}
	}
	scheds := 1
	if thorough() {
		scheds = 3
	}
	ran := 0
	replayIdx := replayIndex()
	for i, c := range cases {
		c.ByzPos = i % 3
		for s := 0; s < scheds || replayIdx >= 0 && s < 3; s++ {
			idx := i*3 + s
			if replayIdx >= 0 {
				if idx != replayIdx {
					continue
				}
			} else if thorough() {
				if !mySlice(idx) {
					continue
				}
			} else if i%20 != seed%20 {
				continue
			}
			sc := c.scenario(idx)
			failed := false
			inc := runC07Case(rec, sc, &detChooser{seed: fmt.Sprintf("exh/%d/%d", seed, idx)}, func(sig, format string, args ...any) {
				if failed {
					return
				}
				failed = true
				detail := fmt.Sprintf(format, args...)
				path := rec.SaveReplay(t.Name(), fmt.Sprintf("exh-%d-seed%d", idx, seed), map[string]any{"index": idx, "seed": seed, "strategy": fmt.Sprintf("%+v", c), "scenario": sc.String()})
				rec.Violation(sig, detail, path)
				t.Errorf("VERIF-FAIL signature=%s :: %s", sig, detail)
			})
			if inc != "" {
				rec.Inconclusive(inc)
				t.Fatalf("inconclusive: %s", inc)
			}
			ran++
		}
	}
	rec.SetExtra("exhaustive_n3_cases_run", ran)
}

// replayIndex reads the case index (and seed) of a JSON replay descriptor
// written by SaveReplay; -1 if this run is not a replay.
func replayIndex() int {
	p := os.Getenv("VERIF_REPLAY_JSON")
	if p == "" {
		return -1
	}
	b, err := os.ReadFile(p)
	if err != nil {
		return -1
	}
	var d struct {
		Case struct {
			Index int `json:"index"`
			Seed  int `json:"seed"`
		} `json:"case"`
	}
	if json.Unmarshal(b, &d) != nil {
		return -1
	}
	seed = d.Case.Seed
	return d.Case.Index
}

// TestC07_OverlappingEons: a fixed grid of all-honest runs with two
// overlapping key generations (the generated runs of TestC07_Agreement draw
// such cases too, this grid makes the class deterministic): keyper set 2
// becomes due 0..2L+1 blocks after the first eon started.
func TestC07_OverlappingEons(t *testing.T) {
	rec := recorder("C07")
	rec.AddRule(c07Rule)
	rec.AddRule("overlapping-eons grid: all honest, n in {3,4}, t=2, L=8, keyper set 2 (rotated order) due at offsets {0,1,2,3,5,L,L+1,2L,2L+1} from the first eon's start (L and 2L: both eons change phase in the same blocks and the first is finalized in a phase-change block of the second), plain fair schedule with send budget unlimited or 1 per step; both eons are evaluated with every oracle")
	c07Assumptions(rec)
	idx := 0
	for _, n := range []int{3, 4} {
		for _, at := range []int{0, 1, 2, 3, 5, 8, 9, 16, 17} {
			for _, budget := range []int{0, 1} {
				idx++
				if thorough() && !mySlice(idx) {
					continue
				}
				if !thorough() && (n == 4 && budget == 1) {
					continue
				}
				sc := Scenario{N: n, T: 2, L: 8, Order: []int{2, 0, 1, 3}[:n], Byz: map[int]ByzStrategy{}, Fair: true, ForkEnabled: idx%2 == 0,
					PlainBudget: budget, Overlap: &overlapSpec{At: at, Rot: []int{1 + idx%(n-1), 0}[idx/2%2]}}
				if n == 3 {
					sc.Order = []int{2, 0, 1}
				}
				failed := false
				inc := runC07CasePlain(rec, sc, func(sig, format string, args ...any) {
					if failed {
						return
					}
					failed = true
					detail := fmt.Sprintf(format, args...)
					path := rec.SaveReplay(t.Name(), fmt.Sprintf("overlap-%d-seed%d", idx, seed), map[string]any{"index": idx, "seed": seed, "scenario": sc.String()})
					rec.Violation(sig, detail, path)
					t.Errorf("VERIF-FAIL signature=%s :: %s", sig, detail)
				})
				if inc != "" {
					rec.Inconclusive(inc)
					t.Fatalf("inconclusive: %s", inc)
				}
			}
		}
	}
}

// TestC07_FixedAdversaries: a few hand-made scenarios with two colluding
// Byzantine keypers that the random walk reaches only now and then: both
// deal correctly and both accuse every honest keyper, so that every honest
// keyper has to answer two accusers in one apology message.
func TestC07_FixedAdversaries(t *testing.T) {
	rec := recorder("C07")
	rec.AddRule(c07Rule)
	rec.AddRule("fixed adversaries: (n=5,t=3) and (n=4,t=2) with two Byzantine keypers that deal correctly and both accuse all honest keypers (every honest keyper apologizes to two accusers in one message), apology of the Byzantine keypers correct / none, under the plain schedule and two generated ones")
	c07Assumptions(rec)
	idx := 0
	for _, nt := range [][2]int{{5, 3}, {4, 2}} {
		n, th := nt[0], nt[1]
		for _, apo := range []int{apCorrect, apNone} {
			for sched := 0; sched < 3; sched++ {
				idx++
				if thorough() && !mySlice(idx) {
					continue
				}
				if !thorough() && sched == 2 {
					continue
				}
				sc := Scenario{N: n, T: th, L: 8, Order: []int{3, 1, 4, 0, 2}[:n], Byz: map[int]ByzStrategy{}, Fair: true, ForkEnabled: idx%2 == 1}
				if n == 4 {
					sc.Order = []int{3, 1, 0, 2}
				}
				var honest []int
				for p := 0; p < n-2; p++ {
					honest = append(honest, p+1)
				}
				byzPos := []int{0, n - 1}
				for _, b := range byzPos {
					st := ByzStrategy{Commit: cmCorrect, Eval: map[int]int{}, Apology: apo, DealOff: 1 + idx%3, AccOff: 1 + b%4, ApoOff: 2}
					for p := 0; p < n; p++ {
						if p != b {
							st.Eval[p] = evCorrect
						}
					}
					st.Accuse = append([]int{}, honest...)
					sc.Byz[b] = st
				}
				failed := false
				fail := func(sig, format string, args ...any) {
					if failed {
						return
					}
					failed = true
					detail := fmt.Sprintf(format, args...)
					path := rec.SaveReplay(t.Name(), fmt.Sprintf("fixedadv-%d-seed%d", idx, seed), map[string]any{"index": idx, "seed": seed, "scenario": sc.String()})
					rec.Violation(sig, detail, path)
					t.Errorf("VERIF-FAIL signature=%s :: %s", sig, detail)
				}
				var inc string
				if sched == 0 {
					inc = runC07CasePlain(rec, sc, fail)
				} else {
					inc = runC07Case(rec, sc, &detChooser{seed: fmt.Sprintf("fixedadv/%d/%d", seed, idx)}, fail)
				}
				if inc != "" {
					rec.Inconclusive(inc)
					t.Fatalf("inconclusive: %s", inc)
				}
			}
		}
	}
}
