package dkgprops

// Scenario runner shared by C07 and C08: n keypers (honest ones run the
// repository's real follower code on their own pgfake database, Byzantine
// ones are scripted by the harness) around one faketm chain, driven block by
// block by a schedule that the caller's chooser decides.

import (
	"context"
	"crypto/ecdsa"
	"crypto/ed25519"
	"fmt"
	"math/big"
	"reflect"
	"sort"
	"strings"
	"sync"
	"unsafe"

	"github.com/ethereum/go-ethereum/common"
	"github.com/ethereum/go-ethereum/crypto"
	"github.com/ethereum/go-ethereum/crypto/ecies"
	"github.com/jackc/pgx/v4"
	"github.com/jackc/pgx/v4/pgxpool"
	"github.com/rs/zerolog"
	blst "github.com/supranational/blst/bindings/go"
	abcitypes "github.com/tendermint/tendermint/abci/types"

	"github.com/shutter-network/shutter/shlib/puredkg"
	"github.com/shutter-network/shutter/shlib/shcrypto"

	obskeyper "github.com/shutter-network/rolling-shutter/rolling-shutter/chainobserver/db/keyper"
	"github.com/shutter-network/rolling-shutter/rolling-shutter/keyper"
	"github.com/shutter-network/rolling-shutter/rolling-shutter/keyper/database"
	"github.com/shutter-network/rolling-shutter/rolling-shutter/keyper/fx"
	"github.com/shutter-network/rolling-shutter/rolling-shutter/keyper/kprconfig"
	"github.com/shutter-network/rolling-shutter/rolling-shutter/keyper/shutterevents"
	"github.com/shutter-network/rolling-shutter/rolling-shutter/keyper/smobserver"
	"github.com/shutter-network/rolling-shutter/rolling-shutter/medley/configuration"
	"github.com/shutter-network/rolling-shutter/rolling-shutter/medley/db"
	"github.com/shutter-network/rolling-shutter/rolling-shutter/medley/encodeable/keys"
	"github.com/shutter-network/rolling-shutter/rolling-shutter/shdb"
	"github.com/shutter-network/rolling-shutter/rolling-shutter/shmsg"
	"verif/harness/apphist"
	"verif/harness/pgfake"
)

func init() {
	zerolog.SetGlobalLevel(zerolog.Disabled)
}

const maxKeypers = 5

var uni = apphist.NewUniverse(maxKeypers)

// encryption (ECIES) private keys of the universe's keypers
var encKeys = func() []*ecdsa.PrivateKey {
	var ks []*ecdsa.PrivateKey
	for i := 0; i < maxKeypers; i++ {
		k, err := crypto.ToECDSA(crypto.Keccak256([]byte(fmt.Sprintf("verif/dkgprops/enc/%d", i))))
		if err != nil {
			panic(err)
		}
		ks = append(ks, k)
	}
	return ks
}()

const (
	keyperSetActivation  = 100 // L1 activation block of keyper set 1
	dkgStartDelta        = 10  // config DKGStartBlockDelta
	l1Idle               = 50  // L1 height while keypers check in
	l1Vote               = 95  // L1 height from which keyper set 1 is voted for
	keyperSet2Activation = 200 // L1 activation block of keyper set 2 (overlapping-eons scenarios)
	l1Vote2              = 195 // L1 height from which keyper set 2 is voted for
)

// ---------------------------------------------------------------------------
// choices

// chooser decides every free parameter of a run. Pick returns an index drawn
// with the given weights; index 0 is always the "plain" choice.
type chooser interface {
	Pick(label string, weights ...int) int
}

type fixedChooser struct{}

func (fixedChooser) Pick(string, ...int) int { return 0 }

// detChooser is a pure function of (seed, call number): used by the
// deterministic enumerations to vary the schedule without a RNG.
type detChooser struct {
	seed string
	n    int
}

func (d *detChooser) Pick(label string, weights ...int) int {
	d.n++
	total := 0
	for _, w := range weights {
		total += w
	}
	if total == 0 {
		return 0
	}
	x := int(hash64(fmt.Sprintf("%s/%d/%s", d.seed, d.n, label)) % uint64(total))
	for i, w := range weights {
		if x < w {
			return i
		}
		x -= w
	}
	return 0
}

// ---------------------------------------------------------------------------
// scenario

const (
	cmCorrect = iota
	cmNone
	cmWrongDegree
	cmDuplicate
	cmInfinity
)

const (
	evCorrect = iota
	evWrong
	evNone
)

const (
	apCorrect = iota
	apWrong
	apNone
)

var (
	cmNames = []string{"correct", "none", "wrongdeg", "duplicate", "infinity"}
	evNames = []string{"correct", "wrong", "none"}
	apNames = []string{"correct", "wrong", "none"}
)

// ByzStrategy is what one Byzantine keyper does (positions are config indices).
type ByzStrategy struct {
	Commit   int
	DegDelta int         // wrong degree: +1 or -1
	Eval     map[int]int // receiver position -> evCorrect/evWrong/evNone
	Accuse   []int       // positions accused (falsely if the target is honest)
	Apology  int
	LateDeal bool // commitment and evals land in the first block after the dealing phase
	LateAcc  bool
	LateApo  bool
	EarlyAcc bool // accusation already in the last blocks of the dealing phase (outside the stated alphabet)
	EarlyApo bool // apology already in the last blocks of the accusing phase
	DealOff  int  // block offset inside the phase when not late (0..L-1)
	AccOff   int
	ApoOff   int
	// Repeat: before each accusation, apology and eval message the keyper first
	// sends a copy whose address list repeats its first entry (accused [H,H] or
	// [H,X,H], accusers / receivers likewise). shuttermint refuses such lists, so
	// on a correct chain the copy has no effect and the regular message follows.
	Repeat bool
	// ExtraApology: the apology message carries, behind (1) or in front of (2) the
	// genuine entries, one more entry addressed to a keyper that never accused the
	// sender, with an out-of-range evaluation (>= group order). shuttermint admits
	// it (accusers only have to be distinct keypers other than the sender); the
	// keypers' puredkg rejects that one entry.
	ExtraApology int
	AnswerLate   bool // also apologize for accusations that reached the chain outside the accusing phase
}

func (s ByzStrategy) String() string {
	var ev []string
	var ks []int
	for k := range s.Eval {
		ks = append(ks, k)
	}
	sort.Ints(ks)
	for _, k := range ks {
		ev = append(ev, fmt.Sprintf("%d:%s", k, evNames[s.Eval[k]]))
	}
	tm := func(late bool, off int, early ...bool) string {
		if late {
			return "late"
		}
		if len(early) > 0 && early[0] {
			return fmt.Sprintf("early-%d", 1+off%3)
		}
		return fmt.Sprintf("+%d", off)
	}
	cm := cmNames[s.Commit]
	if s.Commit == cmWrongDegree {
		cm += fmt.Sprintf("%+d", s.DegDelta)
	}
	apo := apNames[s.Apology]
	if s.Repeat {
		cm = "repeated-addresses," + cm
	}
	if s.ExtraApology != 0 {
		apo += []string{"", "+unsolicited-entry-behind", "+unsolicited-entry-in-front"}[s.ExtraApology]
	}
	if s.AnswerLate {
		apo += "(also for late accusations)"
	}
	return fmt.Sprintf("{cm=%s@%s ev=[%s] acc=%v@%s apo=%s@%s}", cm, tm(s.LateDeal, s.DealOff),
		strings.Join(ev, ","), s.Accuse, tm(s.LateAcc, s.AccOff, s.EarlyAcc), apo, tm(s.LateApo, s.ApoOff, s.EarlyApo))
}

type overlapSpec struct {
	At  int // block offset from the first eon's start at which keyper set 2 becomes due
	Rot int // keyper set 2 = keyper set 1 rotated by Rot positions
}

type stall struct{ Pos, From, Len int } // keyper at config position Pos takes no step in blocks h0+From .. h0+From+Len-1

type Scenario struct {
	N, T        int
	L           int64
	Order       []int // config position -> universe index (also genesis order)
	Byz         map[int]ByzStrategy
	ForkEnabled bool
	Fair        bool    // every honest keyper completes >=1 sync+send step per block
	Stalls      []stall // only if !Fair
	Tail        int     // fair blocks after the end of the apologizing phase
	// Lag: keyper at position p runs its main loop only every Lag[p]-th block
	// (open height H with (H-h0-LagOffset) % Lag[p] == 0) from the eon start until
	// the DKG is finalized: a slow node that catches up over ranges of several blocks.
	Lag       map[int]int
	LagOffset int
	// Overlap: a second keyper set (index 2, the same keypers in rotated order)
	// becomes due on the main chain while the first DKG runs: from open height
	// h0+Overlap.At the observed L1 block number is past its voting point, the
	// keypers vote for it, shuttermint accepts it and starts a second eon whose
	// DKG overlaps the first one.
	Overlap *overlapSpec
	// StartLate: the keyper process at position p comes up only StartLate[p]
	// blocks after the eon start (open height h0+d): it then catches up from
	// block 1 and its check-in - the encryption key the dealers wait for -
	// lands d blocks after EonStarted. The other keypers (>= t of them) start
	// the eon without it.
	StartLate map[int]int
	// L1Static: the observed main-chain block number stays 0 for the whole run and
	// DKGStartBlockDelta is 200 (the production default): keyper sets are voted for
	// at once, no block-seen report ever becomes due, no batch config is ever started.
	L1Static    bool
	PlainBudget int // send budget per step under the plain schedule (0 = unlimited): 1 puts a keyper's commitment and evals into different blocks
	Replicas    int
}

func (sc Scenario) String() string {
	var bz []string
	var ks []int
	for k := range sc.Byz {
		ks = append(ks, k)
	}
	sort.Ints(ks)
	for _, k := range ks {
		bz = append(bz, fmt.Sprintf("%d%s", k, sc.Byz[k]))
	}
	lag := ""
	if len(sc.Lag) > 0 {
		lag = fmt.Sprintf(" lag=%v+%d", sc.Lag, sc.LagOffset)
	}
	if len(sc.StartLate) > 0 {
		lag += fmt.Sprintf(" startLate=%v", sc.StartLate)
	}
	if sc.L1Static {
		lag += " L1-static(0)"
	}
	if sc.Overlap != nil {
		lag += fmt.Sprintf(" overlap={set2 due at +%d, rotated by %d}", sc.Overlap.At, sc.Overlap.Rot)
	}
	if sc.PlainBudget > 0 {
		lag += fmt.Sprintf(" budget=%d", sc.PlainBudget)
	}
	return fmt.Sprintf("n=%d t=%d L=%d order=%v fork=%v fair=%v stalls=%v%s byz=[%s]", sc.N, sc.T, sc.L, sc.Order, sc.ForkEnabled, sc.Fair, sc.Stalls, lag, strings.Join(bz, " "))
}

// order2: universe index per position in keyper set 2.
func (sc Scenario) order2() []int {
	o := make([]int, sc.N)
	for p := range o {
		o[p] = sc.Order[(p+sc.Overlap.Rot)%sc.N]
	}
	return o
}

func (sc Scenario) startDelta() uint64 {
	if sc.L1Static {
		return 200
	}
	return dkgStartDelta
}

func (sc Scenario) honest() []int {
	var hs []int
	for p := 0; p < sc.N; p++ {
		if _, b := sc.Byz[p]; !b {
			hs = append(hs, p)
		}
	}
	return hs
}

// ---------------------------------------------------------------------------
// keyper node (honest): the repository's code on a pgfake database

var (
	tmplOnce sync.Once
	tmplSrv  *pgfake.Server
	tmplErr  error
)

func templateDB(ctx context.Context) (*pgfake.Server, error) {
	tmplOnce.Do(func() {
		s := pgfake.New()
		pool, err := s.Connect(ctx, 2)
		if err != nil {
			tmplErr = err
			return
		}
		defer pool.Close()
		if err := db.InitDB(ctx, pool, "keyper-verif", database.Definition); err != nil {
			tmplErr = fmt.Errorf("InitDB: %w (unsupported=%v)", err, s.Unsupported())
			return
		}
		if u := s.Unsupported(); len(u) > 0 {
			tmplErr = fmt.Errorf("InitDB hit unsupported SQL: %v", u)
			return
		}
		tmplSrv = s
	})
	return tmplSrv, tmplErr
}

type Node struct {
	Pos  int // position in the keyper set
	U    int // universe index
	Addr common.Address
	Cfg  *kprconfig.Config
	Srv  *pgfake.Server

	Pool   *pgxpool.Pool
	State  *smobserver.ShuttermintState
	Sender fx.RPCMessageSender
	Core   *keyper.KeyperCore
	Client *Client

	Restarts     int
	syncedBefore int64 // highest applied block before the current iteration (C08 bookkeeping)
	StepErrors   []string
	Panics       []string
}

func makeConfig(u int, phaseLen int64, startDelta uint64) *kprconfig.Config {
	vp := ed25519.PublicKey(uni.ValKeys[u])
	return &kprconfig.Config{
		InstanceID: 1,
		Shuttermint: &kprconfig.ShuttermintConfig{
			ValidatorPublicKey: &keys.Ed25519Public{Key: vp},
			EncryptionKey:      &keys.ECDSAPrivate{Key: encKeys[u]},
			DKGPhaseLength:     phaseLen,
			DKGStartBlockDelta: startDelta,
		},
		Ethereum: &configuration.EthnodeConfig{PrivateKey: &keys.ECDSAPrivate{Key: uni.Keys[u]}},
	}
}

// start is process start: a new pool, a new in-memory state, a new sender.
func (n *Node) start(ctx context.Context, chain *Chain) error {
	pool, err := n.Srv.Connect(ctx, 4)
	if err != nil {
		return err
	}
	n.Pool = pool
	n.Client = chain.NewClient(fmt.Sprintf("k%d", n.Pos))
	n.State = smobserver.NewShuttermintState(n.Cfg)
	n.Sender = fx.NewRPCMessageSender(n.Client, n.Cfg.Ethereum.PrivateKey.Key)
	n.Core = keyper.VerifNewCore(n.Cfg, pool)
	return nil
}

// stop is process death: connections are torn down, the client is unusable.
func (n *Node) stop() {
	if n.Client != nil {
		n.Client.Dead = true
	}
	if n.Pool != nil {
		n.Pool.Close()
		n.Pool = nil
	}
}

type stepPanic struct{ v any }

func (p *stepPanic) Error() string { return fmt.Sprintf("panic: %v", p.v) }

// stepParts are the three calls of keyper.operateShuttermint's loop body, in
// its order and with its error handling (first error ends the iteration).
func (n *Node) stepParts(ctx context.Context, l1 uint64) []func() error {
	return []func() error{
		func() error { return smobserver.SyncAppWithDB(ctx, n.Client, n.Pool, n.State) },
		func() error {
			return n.Pool.BeginFunc(ctx, func(tx pgx.Tx) error { return n.Core.VerifHandleOnChainChanges(ctx, tx, l1) })
		},
		func() error { return fx.SendShutterMessages(ctx, database.New(n.Pool), &n.Sender) },
	}
}

var partNames = []string{"sync", "onchain", "send"}

func guarded(f func() error) (err error) {
	defer func() {
		if r := recover(); r != nil {
			err = &stepPanic{r}
		}
	}()
	return f()
}

// step is one iteration of the keyper's main loop.
func (n *Node) step(ctx context.Context, l1 uint64, budget int) error {
	n.Client.SendBudget = budget
	for i, part := range n.stepParts(ctx, l1) {
		if err := guarded(part); err != nil {
			return fmt.Errorf("%s: %w", partNames[i], err)
		}
	}
	return nil
}

// ---------------------------------------------------------------------------
// Byzantine actor

type byzActor struct {
	pos   int
	u     int
	strat ByzStrategy
	poly  *shcrypto.Polynomial // evaluations follow this one
	poly2 *shcrypto.Polynomial // second commitment of cmDuplicate
	rnd   *detReader
	nonce uint64

	dealt, accused bool
	apologized     map[int]bool // accuser position -> done
	sent           []string
}

// ---------------------------------------------------------------------------
// run

type Run struct {
	ctx   context.Context
	sc    Scenario
	ch    chooser
	chain *Chain
	nodes map[int]*Node
	byz   map[int]*byzActor
	addrs []common.Address // by position
	l1    uint64

	h0       int64 // height of the EonStarted event (0: not yet)
	eon      uint64
	h1       int64 // second (overlapping) eon: height of its EonStarted event
	eon2     uint64
	scText   string // scenario as constructed (history)
	first0   int64
	firstEon uint64

	sched         []string      // schedule descriptor
	plainSchedule bool          // use the plain fair schedule also for the DKG blocks
	noLagUntil    map[int]int64 // position -> open height up to which Scenario.Lag is suspended (a restarted process polls at once)
	// checkPersisted: after every main-loop iteration that ended without error
	// compare the keyper's in-memory DKG state with the puredkg rows (C08)
	checkPersisted  bool
	persistProblems []string
	phaseProblems   []string // "every eon enters its phase with the block" (see phaseVsHeight)
	// hooks for C08
	StepHook   func(r *Run, n *Node, budget int) error // replaces n.step if set
	AfterBlock func(r *Run, closed int64)

	keyperPanics []string
	stepErrors   []string
	infra        []string // harness-level problems (inconclusive)
}

func newRun(ctx context.Context, sc Scenario, ch chooser) (*Run, error) {
	tmpl, err := templateDB(ctx)
	if err != nil {
		return nil, err
	}
	r := &Run{ctx: ctx, sc: sc, ch: ch, nodes: map[int]*Node{}, byz: map[int]*byzActor{}, l1: l1Idle, noLagUntil: map[int]int64{}, scText: sc.String()}
	var keyperStrs []string
	for p := 0; p < sc.N; p++ {
		r.addrs = append(r.addrs, uni.Addrs[sc.Order[p]])
		keyperStrs = append(keyperStrs, shdb.EncodeAddress(uni.Addrs[sc.Order[p]]))
	}
	reps := sc.Replicas
	if reps == 0 {
		reps = 2
	}
	r.chain = NewChain(ChainGenesis{
		Keypers: r.addrs, Threshold: sc.T, ForkEnabled: sc.ForkEnabled,
		Validators: [][]byte{uni.ValKeys[maxKeypers]}, Replicas: reps,
	})
	for p := 0; p < sc.N; p++ {
		u := sc.Order[p]
		if st, isByz := sc.Byz[p]; isByz {
			r.byz[p] = &byzActor{pos: p, u: u, strat: st, apologized: map[int]bool{},
				rnd: newDetReader(fmt.Sprintf("byz/%s/%d", sc.String(), p))}
			continue
		}
		n := &Node{Pos: p, U: u, Addr: r.addrs[p], Cfg: makeConfig(u, sc.L, sc.startDelta()), Srv: tmpl.Clone()}
		// what the chain observer would have synced from the keyper set manager contract
		setup, err := n.Srv.Connect(ctx, 1)
		if err != nil {
			return nil, err
		}
		err = obskeyper.New(setup).InsertKeyperSet(ctx, obskeyper.InsertKeyperSetParams{
			KeyperConfigIndex: 1, ActivationBlockNumber: keyperSetActivation, Keypers: keyperStrs, Threshold: int32(sc.T),
		})
		if err == nil && sc.Overlap != nil {
			var set2 []string
			for _, u2 := range sc.order2() {
				set2 = append(set2, shdb.EncodeAddress(uni.Addrs[u2]))
			}
			err = obskeyper.New(setup).InsertKeyperSet(ctx, obskeyper.InsertKeyperSetParams{
				KeyperConfigIndex: 2, ActivationBlockNumber: keyperSet2Activation, Keypers: set2, Threshold: int32(sc.T),
			})
		}
		setup.Close()
		if err != nil {
			return nil, fmt.Errorf("InsertKeyperSet: %w", err)
		}
		if err := n.start(ctx, r.chain); err != nil {
			return nil, err
		}
		r.nodes[p] = n
	}
	return r, nil
}

func (r *Run) close() {
	for _, n := range r.nodes {
		n.stop()
	}
}

func (r *Run) unsupported() []string {
	var all []string
	for _, n := range r.nodes {
		all = append(all, n.Srv.Unsupported()...)
	}
	return all
}

// curL1 is the main-chain block number the keypers observe right now.
func (r *Run) curL1() uint64 {
	if r.sc.L1Static {
		return 0
	}
	return r.l1
}

func (r *Run) stepNode(n *Node, budget int) {
	var err error
	if r.checkPersisted {
		// also between the per-block transactions of one sync range: the
		// driver fetches the next block's results right after the previous
		// block's transaction committed
		first := true
		n.Client.Watch = func(m string) {
			if m != "BlockResults" {
				return
			}
			if first {
				first = false
				return
			}
			if d := persistedVsMemory(n); d != "" && len(r.persistProblems) < 5 {
				r.persistProblems = append(r.persistProblems, fmt.Sprintf("k%d inside a sync range at open height %d, after the transaction of block %d committed and before the next block of the range: %s", n.Pos, r.chain.OpenHeight(), n.syncedTo(), d))
			}
		}
	}
	if r.StepHook != nil {
		err = r.StepHook(r, n, budget)
	} else {
		err = n.step(r.ctx, r.curL1(), budget)
	}
	if err == nil {
		if d := phaseVsHeight(n, r.sc.L); d != "" && len(r.phaseProblems) < 5 {
			r.phaseProblems = append(r.phaseProblems, fmt.Sprintf("k%d after its iteration at open height %d: %s", n.Pos, r.chain.OpenHeight(), d))
		}
		if r.checkPersisted {
			if d := persistedVsMemory(n); d != "" && len(r.persistProblems) < 5 {
				r.persistProblems = append(r.persistProblems, fmt.Sprintf("k%d after its iteration at open height %d (applied blocks up to %d): %s", n.Pos, r.chain.OpenHeight(), n.syncedTo(), d))
			}
		}
		return
	}
	msg := fmt.Sprintf("k%d at open height %d: %v", n.Pos, r.chain.OpenHeight(), err)
	if strings.Contains(err.Error(), "panic: ") {
		r.keyperPanics = append(r.keyperPanics, msg)
	} else {
		r.stepErrors = append(r.stepErrors, msg)
	}
}

func (r *Run) submitByz(b *byzActor, msg *shmsg.Message, what string) {
	b.nonce++
	tx := uni.MakeTx(b.u, r.chain.ChainID, uint64(b.pos)<<32|b.nonce, msg)
	rec, _, admitted := r.chain.Submit(tx, fmt.Sprintf("byz%d", b.pos))
	b.sent = append(b.sent, fmt.Sprintf("%s@%d:%v/%d", what, rec.Height, admitted, rec.Code))
}

// observe scans newly available chain data for the eon start.
func (r *Run) observe() {
	if r.h0 != 0 {
		if r.sc.Overlap != nil && r.h1 == 0 {
			// the second eon: look at the newest closed block and the open one
			for _, b := range []*BlockRec{r.chain.Block(r.chain.Height()), r.chain.Open} {
				if b == nil {
					continue
				}
				for _, tx := range b.Txs {
					for _, ev := range tx.Events {
						if e, err := shutterevents.MakeEvent(ev, b.Height); err == nil {
							// (keyper set 2's eon - not a restart of the first eon after a failed DKG)
							if es, ok := e.(*shutterevents.EonStarted); ok && es.Eon > r.eon && es.KeyperConfigIndex == 2 && r.h1 == 0 {
								r.h1, r.eon2 = b.Height, es.Eon
							}
						}
					}
				}
			}
		}
		return
	}
	scan := func(h int64, evs []abcitypes.Event) {
		for _, ev := range evs {
			e, err := shutterevents.MakeEvent(ev, h)
			if err != nil {
				continue
			}
			if es, ok := e.(*shutterevents.EonStarted); ok && r.h0 == 0 {
				r.h0, r.eon = h, es.Eon
			}
		}
	}
	blocks := append([]*BlockRec{}, r.chain.Closed...)
	blocks = append(blocks, r.chain.Open)
	for _, b := range blocks {
		for _, tx := range b.Txs {
			scan(b.Height, tx.Events)
		}
	}
}

// encryption keys announced on chain (latest per address)
func (r *Run) chainEncKeys() map[common.Address]*ecies.PublicKey {
	res := map[common.Address]*ecies.PublicKey{}
	for _, tx := range r.chain.AllTxs {
		for _, ev := range tx.Events {
			e, err := shutterevents.MakeEvent(ev, tx.Height)
			if err != nil {
				continue
			}
			if ci, ok := e.(*shutterevents.CheckIn); ok {
				res[ci.Sender] = ci.EncryptionPublicKey
			}
		}
	}
	return res
}

func (r *Run) posOf(a common.Address) int {
	for p, x := range r.addrs {
		if x == a {
			return p
		}
	}
	return -1
}

var blsOrder, _ = new(big.Int).SetString("73eda753299d7d483339d80809a1d80553bda402fffe5bfeffffffff00000001", 16)

func infinityGammas(degree uint64) *shcrypto.Gammas { return shcrypto.ZeroGammas(degree) }

// act lets Byzantine keyper b put its transactions for the currently open block.
func (r *Run) act(b *byzActor) {
	if r.h0 == 0 {
		return
	}
	H := r.chain.OpenHeight()
	L := r.sc.L
	st := b.strat
	deg := shcrypto.DegreeFromThreshold(uint64(r.sc.T))
	if b.poly == nil {
		var err error
		if b.poly, err = shcrypto.RandomPolynomial(b.rnd, deg); err != nil {
			panic(err)
		}
		if b.poly2, err = shcrypto.RandomPolynomial(b.rnd, deg); err != nil {
			panic(err)
		}
	}
	evalFor := func(p int) *big.Int {
		if st.Commit == cmInfinity {
			return big.NewInt(0)
		}
		return b.poly.EvalForKeyper(p)
	}
	target := func(phase int64, late bool, off int, early ...bool) int64 {
		if late {
			return r.h0 + (phase+1)*L
		}
		if len(early) > 0 && early[0] {
			return r.h0 + phase*L - 1 - int64(off%3)
		}
		return r.h0 + phase*L + int64(off)
	}
	// dealing
	if !b.dealt && H >= target(0, st.LateDeal, st.DealOff) {
		b.dealt = true
		switch st.Commit {
		case cmCorrect:
			r.submitByz(b, shmsg.NewPolyCommitment(r.eon, b.poly.Gammas()), "commit")
		case cmDuplicate:
			r.submitByz(b, shmsg.NewPolyCommitment(r.eon, b.poly.Gammas()), "commit")
			r.submitByz(b, shmsg.NewPolyCommitment(r.eon, b.poly2.Gammas()), "commit2")
		case cmWrongDegree:
			d := int(deg) + st.DegDelta
			if d < 0 {
				d = int(deg) + 1
			}
			wp, err := shcrypto.RandomPolynomial(b.rnd, uint64(d))
			if err != nil {
				panic(err)
			}
			r.submitByz(b, shmsg.NewPolyCommitment(r.eon, wp.Gammas()), "commit-wrongdeg")
		case cmInfinity:
			r.submitByz(b, shmsg.NewPolyCommitment(r.eon, infinityGammas(deg)), "commit-infinity")
		}
		encKeysOnChain := r.chainEncKeys()
		var receivers []common.Address
		var cts [][]byte
		for p := 0; p < r.sc.N; p++ {
			if p == b.pos || st.Eval[p] == evNone {
				continue
			}
			pk := encKeysOnChain[r.addrs[p]]
			if pk == nil {
				continue
			}
			ev := evalFor(p)
			if st.Eval[p] == evWrong {
				ev = new(big.Int).Add(ev, big.NewInt(1))
				ev.Mod(ev, blsOrder)
			}
			ct, err := ecies.Encrypt(b.rnd, pk, shdb.EncodeBigint(ev), nil, nil)
			if err != nil {
				panic(err)
			}
			receivers = append(receivers, r.addrs[p])
			cts = append(cts, ct)
		}
		if len(receivers) > 0 {
			if st.Repeat {
				r.submitByz(b, shmsg.NewPolyEval(r.eon, append(append([]common.Address{}, receivers...), receivers[0]), append(append([][]byte{}, cts...), cts[0])), "evals-repeated-receiver")
			}
			r.submitByz(b, shmsg.NewPolyEval(r.eon, receivers, cts), "evals")
		}
	}
	// accusing
	if !b.accused && len(st.Accuse) > 0 && H >= target(1, st.LateAcc, st.AccOff, st.EarlyAcc) {
		b.accused = true
		var acc []common.Address
		for _, p := range st.Accuse {
			acc = append(acc, r.addrs[p])
		}
		if st.Repeat {
			r.submitByz(b, shmsg.NewAccusation(r.eon, append(append([]common.Address{}, acc...), acc[0])), "accuse-repeated-accused")
		}
		r.submitByz(b, shmsg.NewAccusation(r.eon, acc), "accuse")
	}
	// apologizing: answer every accusation against b that is on chain so far, once
	if st.Apology != apNone && H >= target(2, st.LateApo, st.ApoOff, st.EarlyApo) {
		var accusers []common.Address
		var evals []*big.Int
		for _, tx := range r.chain.AllTxs {
			if tx.Code != 0 || tx.Msg == nil || tx.Msg.GetAccusation() == nil || tx.Msg.GetAccusation().Eon != r.eon {
				continue
			}
			ap := r.posOf(tx.Signer)
			if ap < 0 || ap == b.pos || b.apologized[ap] {
				continue
			}
			if inPhase := tx.Height >= r.h0+L && tx.Height < r.h0+2*L; !inPhase && !st.AnswerLate {
				continue
			}
			for _, a := range tx.Msg.GetAccusation().Accused {
				if common.BytesToAddress(a) == r.addrs[b.pos] {
					b.apologized[ap] = true
					ev := evalFor(ap)
					if st.Apology == apWrong {
						ev = new(big.Int).Add(ev, big.NewInt(1))
						ev.Mod(ev, blsOrder)
					}
					accusers = append(accusers, r.addrs[ap])
					evals = append(evals, ev)
				}
			}
		}
		if len(accusers) > 0 && st.ExtraApology != 0 {
			for p := 0; p < r.sc.N; p++ {
				genuine := p == b.pos
				for _, a := range accusers {
					if a == r.addrs[p] {
						genuine = true
					}
				}
				if genuine {
					continue
				}
				bogus := new(big.Int).Add(blsOrder, big.NewInt(5))
				if st.ExtraApology == 1 {
					accusers, evals = append(accusers, r.addrs[p]), append(evals, bogus)
				} else {
					accusers, evals = append([]common.Address{r.addrs[p]}, accusers...), append([]*big.Int{bogus}, evals...)
				}
				break
			}
		}
		if len(accusers) > 0 {
			// shuttermint admits one apology message per sender: later
			// accusers only get one if this is the first.
			if st.Repeat {
				r.submitByz(b, shmsg.NewApology(r.eon, append(append([]common.Address{}, accusers...), accusers[0]), append(append([]*big.Int{}, evals...), evals[0])), "apologize-repeated-accuser")
			}
			r.submitByz(b, shmsg.NewApology(r.eon, accusers, evals), "apologize")
		}
	}
}

func (r *Run) stalled(pos int, H int64) bool {
	if d, late := r.sc.StartLate[pos]; late && (r.h0 == 0 || H < r.h0+int64(d)) {
		return true
	}
	if r.h0 == 0 {
		return false
	}
	if per := int64(r.sc.Lag[pos]); per > 1 && H > r.h0 && H <= r.h0+3*r.sc.L+4 && H > r.noLagUntil[pos] {
		if (H-r.h0-int64(r.sc.LagOffset))%per != 0 {
			return true
		}
	}
	for _, s := range r.sc.Stalls {
		if s.Pos == pos && H >= r.h0+int64(s.From) && H < r.h0+int64(s.From+s.Len) {
			return true
		}
	}
	return false
}

// block runs the actions of one block and closes it. generated == false uses
// the plain fair schedule (every honest keyper one full step in position order).
func (r *Run) block(generated bool) {
	H := r.chain.OpenHeight()
	hs := r.sc.honest()
	type slot struct{ pos, budget int }
	var slots []slot
	if !generated {
		budget := -1
		if r.sc.PlainBudget > 0 {
			budget = r.sc.PlainBudget
		}
		for _, p := range hs {
			if r.stalled(p, H) {
				continue
			}
			slots = append(slots, slot{p, budget})
		}
	} else {
		// order: a drawn permutation of the honest keypers
		rest := append([]int{}, hs...)
		for len(rest) > 0 {
			w := make([]int, len(rest))
			for i := range w {
				w[i] = 1
			}
			i := r.ch.Pick("order", w...)
			p := rest[i]
			rest = append(rest[:i], rest[i+1:]...)
			if r.stalled(p, H) {
				continue
			}
			budget := []int{-1, 1, 2}[r.ch.Pick("budget", 5, 2, 1)]
			slots = append(slots, slot{p, budget})
		}
		// a second step of some keyper later in the same block
		if x := r.ch.Pick("extra", 4, 1); x == 1 && len(slots) > 0 {
			w := make([]int, len(slots))
			for i := range w {
				w[i] = 1
			}
			s := slots[r.ch.Pick("extraWho", w...)]
			slots = append(slots, slot{s.pos, -1})
		}
	}
	// Byzantine keypers act at a drawn position among the steps
	byzAt := 0
	if len(r.byz) > 0 && generated {
		w := make([]int, len(slots)+1)
		for i := range w {
			w[i] = 1
		}
		byzAt = r.ch.Pick("byzAt", w...)
	}
	var desc []string
	actByz := func() {
		if len(r.byz) == 0 {
			return
		}
		r.observe()
		var ps []int
		for p := range r.byz {
			ps = append(ps, p)
		}
		sort.Ints(ps)
		for _, p := range ps {
			r.act(r.byz[p])
		}
		desc = append(desc, "B")
	}
	for i, s := range slots {
		if i == byzAt {
			actByz()
		}
		r.stepNode(r.nodes[s.pos], s.budget)
		if s.budget < 0 {
			desc = append(desc, fmt.Sprintf("k%d", s.pos))
		} else {
			desc = append(desc, fmt.Sprintf("k%d/%d", s.pos, s.budget))
		}
	}
	if byzAt >= len(slots) {
		actByz()
	}
	r.chain.CloseBlock()
	r.observe()
	if generated {
		r.sched = append(r.sched, fmt.Sprintf("%d:%s", H, strings.Join(desc, ",")))
	}
	if r.AfterBlock != nil {
		r.AfterBlock(r, H)
	}
}

// checkedInAndSynced: every keyper's check-in is on chain and every honest
// keyper has stored all n encryption keys.
func (r *Run) checkedInAndSynced() bool {
	want := r.sc.N - len(r.sc.StartLate)
	if len(r.chainEncKeys()) < want {
		return false
	}
	for p, n := range r.nodes {
		if _, late := r.sc.StartLate[p]; late {
			continue
		}
		if len(n.Srv.Rows("tendermint_encryption_key")) < want {
			return false
		}
	}
	return true
}

// execute runs the whole scenario: bootstrap (check-ins), vote for keyper set
// 1 (which starts the eon), the DKG under the generated schedule, a fair tail.
func (r *Run) execute() error {
	// bootstrap: Byzantine keypers check in by hand in block 2
	for guard := 0; ; guard++ {
		if guard > 30 {
			return fmt.Errorf("bootstrap did not finish: check-ins %d/%d", len(r.chainEncKeys()), r.sc.N)
		}
		if r.chain.OpenHeight() == 2 {
			for _, p := range sortedKeys(r.byz) {
				b := r.byz[p]
				r.submitByz(b, shmsg.NewCheckIn(uni.ValKeys[b.u], ecies.ImportECDSAPublic(&encKeys[b.u].PublicKey)), "checkin")
			}
		}
		r.block(false)
		if r.checkedInAndSynced() {
			break
		}
	}
	// vote
	r.l1 = l1Vote
	for guard := 0; r.h0 == 0; guard++ {
		if guard > 10 {
			return fmt.Errorf("eon did not start")
		}
		r.block(false)
	}
	// DKG
	for {
		H := r.chain.OpenHeight()
		end := r.h0 + 3*r.sc.L
		for _, st := range r.sc.Stalls {
			// a keyper that sleeps beyond the end of the DKG still gets the tail to catch up
			end = max(end, r.h0+int64(st.From+st.Len))
		}
		if ov := r.sc.Overlap; ov != nil {
			if r.h1 != 0 {
				end = max(end, r.h1+3*r.sc.L)
			} else if H <= r.h0+int64(ov.At)+6 {
				end = max(end, H) // wait for the second eon to start
			}
		}
		if H > end {
			break
		}
		r.l1 = l1Vote + uint64(H-r.h0)
		if ov := r.sc.Overlap; ov != nil && H >= r.h0+int64(ov.At) {
			r.l1 = l1Vote2 + uint64(H-r.h0)
		}
		r.block(!r.plainSchedule)
	}
	tail := r.sc.Tail
	if tail == 0 {
		tail = 8
	}
	for i := 0; i < tail; i++ {
		r.l1++
		r.block(false)
	}
	// a second eon that started late (slow voters) still gets its full run
	for r.h1 != 0 && r.chain.OpenHeight() <= r.h1+3*r.sc.L+int64(tail) {
		r.l1++
		r.block(false)
	}
	return nil
}

func sortedKeys[V any](m map[int]V) []int {
	var ks []int
	for k := range m {
		ks = append(ks, k)
	}
	sort.Ints(ks)
	return ks
}

// ---------------------------------------------------------------------------
// observation of the outcome

type keyperOutcome struct {
	Pos      int
	HasRow   bool
	Success  bool
	Error    string
	Result   *puredkg.Result
	OutboxN  int
	SyncedTo int64
}

func (r *Run) outcome(n *Node) (keyperOutcome, error) {
	o := keyperOutcome{Pos: n.Pos}
	for _, row := range n.Srv.Rows("dkg_result") {
		if uint64(row["eon"].(int64)) != r.eon {
			continue
		}
		o.HasRow = true
		o.Success = row["success"].(bool)
		if e, ok := row["error"].(string); ok {
			o.Error = e
		}
		if o.Success {
			b, _ := row["pure_result"].([]byte)
			res, err := shdb.DecodePureDKGResult(b)
			if err != nil {
				return o, fmt.Errorf("k%d: stored pure_result does not decode: %w", n.Pos, err)
			}
			o.Result = res
		}
	}
	o.OutboxN = len(n.Srv.Rows("tendermint_outgoing_messages"))
	for _, row := range n.Srv.Rows("tendermint_sync_meta") {
		if h := row["current_block"].(int64); h > o.SyncedTo {
			o.SyncedTo = h
		}
	}
	return o, nil
}

// ---------------------------------------------------------------------------
// reference model of the on-chain record (independent of smobserver): which
// dealers qualify, and what the eon key therefore is.

type refRecord struct {
	H0, L       int64
	T           int
	Commit      map[int]*shcrypto.Gammas // counted commitments by position
	CommitH     map[int]int64            // height of the accepted commitment tx (any phase)
	EvalH       map[[2]int]int64         // (sender, receiver) -> height of the accepted eval
	Accusations map[[2]int]int64         // counted (accuser, accused) -> height
	AccusTxH    map[int][]int64          // all accepted accusation txs by sender
	Apologies   map[[2]int]*big.Int      // counted (accuser, accused) -> eval
	ApoTxH      map[int][]int64
	Disq        map[int]string // position -> reason
	LateByz     int            // accepted Byzantine DKG messages outside their phase
	DupByz      int            // Byzantine messages answered "seen"
	Votes       map[int][]bool // DKGResult votes accepted, by position
}

func decodeGammas(bs [][]byte) *shcrypto.Gammas {
	g := shcrypto.Gammas{}
	for _, b := range bs {
		p := new(blst.P2Affine).Uncompress(b)
		if p == nil {
			return nil
		}
		g = append(g, p)
	}
	return &g
}

func (r *Run) reference() *refRecord {
	ref := &refRecord{H0: r.h0, L: r.sc.L, T: r.sc.T, Commit: map[int]*shcrypto.Gammas{}, CommitH: map[int]int64{},
		EvalH: map[[2]int]int64{}, Accusations: map[[2]int]int64{}, AccusTxH: map[int][]int64{},
		Apologies: map[[2]int]*big.Int{}, ApoTxH: map[int][]int64{}, Disq: map[int]string{}, Votes: map[int][]bool{}}
	phase := func(h int64) int { // 0 dealing, 1 accusing, 2 apologizing, 3 after
		if h < r.h0 {
			return -1
		}
		return int((h - r.h0) / r.sc.L)
	}
	for _, blk := range r.chain.Closed {
		for _, tx := range blk.Txs {
			if tx.Msg == nil {
				continue
			}
			s := r.posOf(tx.Signer)
			if s < 0 {
				continue
			}
			_, isByz := r.sc.Byz[s]
			ph := phase(tx.Height)
			m := tx.Msg
			dkgMsg := m.GetPolyCommitment() != nil || m.GetPolyEval() != nil || m.GetAccusation() != nil || m.GetApology() != nil
			if isByz && dkgMsg && tx.Code == 2 {
				ref.DupByz++
			}
			if tx.Code != 0 {
				continue
			}
			switch {
			case m.GetPolyCommitment() != nil && m.GetPolyCommitment().Eon == r.eon:
				ref.CommitH[s] = tx.Height
				g := decodeGammas(m.GetPolyCommitment().Gammas)
				if ph == 0 && g != nil && len(*g) == r.sc.T {
					ref.Commit[s] = g
				}
				if isByz && ph != 0 {
					ref.LateByz++
				}
			case m.GetPolyEval() != nil && m.GetPolyEval().Eon == r.eon:
				for _, rc := range m.GetPolyEval().Receivers {
					if q := r.posOf(common.BytesToAddress(rc)); q >= 0 {
						ref.EvalH[[2]int{s, q}] = tx.Height
					}
				}
				if isByz && ph != 0 {
					ref.LateByz++
				}
			case m.GetAccusation() != nil && m.GetAccusation().Eon == r.eon:
				ref.AccusTxH[s] = append(ref.AccusTxH[s], tx.Height)
				if ph == 1 {
					for _, a := range m.GetAccusation().Accused {
						if q := r.posOf(common.BytesToAddress(a)); q >= 0 {
							ref.Accusations[[2]int{s, q}] = tx.Height
						}
					}
				} else if isByz {
					ref.LateByz++
				}
			case m.GetApology() != nil && m.GetApology().Eon == r.eon:
				ref.ApoTxH[s] = append(ref.ApoTxH[s], tx.Height)
				if ph == 2 {
					ap := m.GetApology()
					for i, a := range ap.Accusers {
						q := r.posOf(common.BytesToAddress(a))
						ev := new(big.Int).SetBytes(ap.PolyEvals[i])
						if q >= 0 && shcrypto.ValidEval(ev) {
							ref.Apologies[[2]int{q, s}] = ev
						}
					}
				} else if isByz {
					ref.LateByz++
				}
			case m.GetDkgResult() != nil && m.GetDkgResult().Eon == r.eon:
				ref.Votes[s] = append(ref.Votes[s], m.GetDkgResult().Success)
			}
		}
	}
	for p := 0; p < r.sc.N; p++ {
		g := ref.Commit[p]
		if g == nil {
			ref.Disq[p] = "no valid commitment in the dealing phase"
			continue
		}
		for k, ev := range ref.Apologies {
			if k[1] == p && !shcrypto.VerifyPolyEval(k[0], ev, g, uint64(r.sc.T)) {
				ref.Disq[p] = fmt.Sprintf("apology to %d does not match the commitment", k[0])
			}
		}
		for k := range ref.Accusations {
			if k[1] != p {
				continue
			}
			if _, ok := ref.Apologies[k]; !ok {
				ref.Disq[p] = fmt.Sprintf("accused by %d without apology", k[0])
			}
		}
	}
	return ref
}

func (ref *refRecord) qualified(n int) []int {
	var q []int
	for p := 0; p < n; p++ {
		if _, d := ref.Disq[p]; !d {
			q = append(q, p)
		}
	}
	return q
}

func (ref *refRecord) expectedKeys(n int) (*shcrypto.EonPublicKey, []*shcrypto.EonPublicKeyShare) {
	var gs []*shcrypto.Gammas
	for _, p := range ref.qualified(n) {
		gs = append(gs, ref.Commit[p])
	}
	var shares []*shcrypto.EonPublicKeyShare
	for p := 0; p < n; p++ {
		shares = append(shares, shcrypto.ComputeEonPublicKeyShare(p, gs))
	}
	return shcrypto.ComputeEonPublicKey(gs), shares
}

// honestInPhase: did every DKG message of the honest keypers land in the
// phase it belongs to (the premise of the statement's last sentence)?
func (r *Run) honestInPhase(ref *refRecord) (ok bool, why string) {
	hs := r.sc.honest()
	in := func(h int64, ph int64) bool { return h >= r.h0+ph*r.sc.L && h < r.h0+(ph+1)*r.sc.L }
	for _, p := range hs {
		h, have := ref.CommitH[p]
		if !have || !in(h, 0) {
			return false, fmt.Sprintf("commitment of k%d at height %d (have=%v), dealing is [%d,%d)", p, h, have, r.h0, r.h0+r.sc.L)
		}
		for q := 0; q < r.sc.N; q++ {
			if q == p {
				continue
			}
			h, have := ref.EvalH[[2]int{p, q}]
			if !have || !in(h, 0) {
				return false, fmt.Sprintf("eval k%d->%d at height %d (have=%v)", p, q, h, have)
			}
		}
		for _, h := range ref.AccusTxH[p] {
			if !in(h, 1) {
				return false, fmt.Sprintf("accusation of k%d at height %d", p, h)
			}
		}
		for _, h := range ref.ApoTxH[p] {
			if !in(h, 2) {
				return false, fmt.Sprintf("apology of k%d at height %d", p, h)
			}
		}
	}
	return true, ""
}

// ---------------------------------------------------------------------------
// agreement oracle (the statement of C07; also clause 5 of C08)

type failFn func(sig, format string, args ...any)

type agreeStats struct {
	Successes   int
	Failures    int
	NoRow       int
	Subsets     int
	Accusations int
	Apologies   int
	Qualified   int
	Premise     bool
	PremiseWhy  string
}

var trialMessage = []byte("verif: a message encrypted to the eon key of this run")

func (r *Run) checkAgreement(fail failFn, derived bool) (agreeStats, *refRecord) {
	var st agreeStats
	hist := func() string { return r.history() }
	if len(r.chain.AppPanics) > 0 {
		fail("app-panic", "shuttermint panicked: %v\n%s", r.chain.AppPanics, hist())
	}
	if len(r.chain.Divergence) > 0 {
		fail("replica-diverged", "shuttermint replicas disagree: %v\n%s", r.chain.Divergence, hist())
	}
	if len(r.phaseProblems) > 0 {
		fail("eon-phase-lags-block", "the phase of a key generation is a function of the block height and the eon's start height, applied before the block's events; after a completed iteration an honest keyper's DKG is in another phase than the last block it applied demands: %v\n%s", r.phaseProblems, hist())
	}
	if len(r.keyperPanics) > 0 {
		fail("keyper-panic", "an honest keyper's main loop panicked: %v\n%s", r.keyperPanics, hist())
	}
	// shuttermint has no reason to refuse a DKG message of an honest keyper for a started eon
	// (it may answer "seen" to a repetition): a refusal keeps the message at the head of the
	// keyper's outbox for ever and takes the keyper out of this and every later key generation
	for _, tx := range r.chain.AllTxs {
		p := r.posOf(tx.Signer)
		if _, isByz := r.sc.Byz[p]; p < 0 || isByz || tx.Msg == nil || tx.Code != 1 {
			continue
		}
		var eon uint64
		switch m := tx.Msg; {
		case m.GetPolyCommitment() != nil:
			eon = m.GetPolyCommitment().Eon
		case m.GetPolyEval() != nil:
			eon = m.GetPolyEval().Eon
		case m.GetAccusation() != nil:
			eon = m.GetAccusation().Eon
		case m.GetApology() != nil:
			eon = m.GetApology().Eon
		default:
			continue
		}
		if eon == r.eon {
			fail("honest-dkg-message-refused", "shuttermint answered the %s of honest k%d for eon %d at height %d (eon started at %d) with an error: %s\n%s", msgKind(tx), p, eon, tx.Height, r.h0, tx.Log, hist())
			break
		}
	}
	ref := r.reference()
	st.Accusations, st.Apologies = len(ref.Accusations), len(ref.Apologies)
	st.Qualified = len(ref.qualified(r.sc.N))
	st.Premise, st.PremiseWhy = r.honestInPhase(ref)

	var outs []keyperOutcome
	for _, p := range r.sc.honest() {
		o, err := r.outcome(r.nodes[p])
		if err != nil {
			fail("result-undecodable", "%v\n%s", err, hist())
		}
		outs = append(outs, o)
	}
	var succ []keyperOutcome
	for _, o := range outs {
		switch {
		case !o.HasRow:
			st.NoRow++
		case o.Success:
			st.Successes++
			succ = append(succ, o)
		default:
			st.Failures++
		}
	}
	epochID := shcrypto.ComputeEpochID([]byte(fmt.Sprintf("verif-identity-%d", r.eon)))
	var epochShares []*shcrypto.EpochSecretKeyShare
	for i, o := range succ {
		res := o.Result
		if res.Eon != r.eon || int(res.NumKeypers) != r.sc.N || int(res.Threshold) != r.sc.T || int(res.Keyper) != o.Pos {
			fail("result-header", "k%d stored result header eon=%d n=%d t=%d keyper=%d, expected eon=%d n=%d t=%d keyper=%d\n%s",
				o.Pos, res.Eon, res.NumKeypers, res.Threshold, res.Keyper, r.eon, r.sc.N, r.sc.T, o.Pos, hist())
		}
		if len(res.PublicKeyShares) != r.sc.N {
			fail("agree-shares", "k%d has %d public key shares, n=%d\n%s", o.Pos, len(res.PublicKeyShares), r.sc.N, hist())
		}
		if i > 0 {
			first := succ[0].Result
			if !res.PublicKey.Equal(first.PublicKey) {
				fail("agree-pubkey", "honest k%d and k%d both report success but hold different eon public keys\n%s", succ[0].Pos, o.Pos, hist())
			}
			for j := range res.PublicKeyShares {
				if !res.PublicKeyShares[j].Equal(first.PublicKeyShares[j]) {
					fail("agree-shares", "honest k%d and k%d differ in public key share %d\n%s", succ[0].Pos, o.Pos, j, hist())
				}
			}
		}
		es := shcrypto.ComputeEpochSecretKeyShare(res.SecretKeyShare, epochID)
		if !shcrypto.VerifyEpochSecretKeyShare(es, res.PublicKeyShares[o.Pos], epochID) {
			fail("share-mismatch", "k%d: secret key share does not match its public key share\n%s", o.Pos, hist())
		}
		epochShares = append(epochShares, es)
	}
	// any t of the successful honest keypers can decrypt
	if len(succ) >= r.sc.T {
		sigma := shcrypto.Block{}
		copy(sigma[:], crypto.Keccak256([]byte("verif-sigma")))
		enc := shcrypto.Encrypt(trialMessage, succ[0].Result.PublicKey, epochID, sigma)
		idx := make([]int, r.sc.T)
		var rec func(start, k int)
		rec = func(start, k int) {
			if k == r.sc.T {
				st.Subsets++
				var pos []int
				var sh []*shcrypto.EpochSecretKeyShare
				for _, i := range idx {
					pos = append(pos, succ[i].Pos)
					sh = append(sh, epochShares[i])
				}
				key, err := shcrypto.ComputeEpochSecretKey(pos, sh, uint64(r.sc.T))
				if err != nil {
					fail("decrypt", "ComputeEpochSecretKey%v: %v\n%s", pos, err, hist())
					return
				}
				pt, err := enc.Decrypt(key)
				if err != nil || string(pt) != string(trialMessage) {
					fail("decrypt", "shares of honest keypers %v do not decrypt a message encrypted to the eon key (err=%v)\n%s", pos, err, hist())
				}
				return
			}
			for i := start; i < len(succ); i++ {
				idx[k] = i
				rec(i+1, k+1)
			}
		}
		rec(0, 0)
	}
	// votes on chain match the rows
	for _, o := range outs {
		if !o.HasRow {
			continue
		}
		votes := ref.Votes[o.Pos]
		for _, v := range votes {
			if v != o.Success {
				fail("vote-mismatch", "k%d stored success=%v but voted %v on chain\n%s", o.Pos, o.Success, votes, hist())
			}
		}
		if len(votes) == 0 && o.OutboxN == 0 {
			fail("vote-missing", "k%d stored a result (success=%v), its outbox is empty, but no DKGResult vote of it is on chain\n%s", o.Pos, o.Success, hist())
		}
	}
	// all honest and in time => all succeed
	if len(r.sc.Byz) == 0 && st.Premise {
		for _, o := range outs {
			if !o.HasRow || !o.Success {
				fail("allhonest-not-successful", "all keypers honest, all messages within their phases, but k%d reports hasRow=%v success=%v error=%q\n%s",
					o.Pos, o.HasRow, o.Success, o.Error, hist())
			}
		}
	}
	if derived {
		// Derived expectations (stronger than the statement; see c07_test.go).
		if len(succ) > 0 {
			pk, shares := ref.expectedKeys(r.sc.N)
			if !succ[0].Result.PublicKey.Equal(pk) {
				fail("derived-qualified-set", "eon key of the successful honest keypers is not the sum of the commitments of the dealers the on-chain record qualifies %v (disqualified: %v)\n%s",
					ref.qualified(r.sc.N), ref.Disq, hist())
			}
			for j := range shares {
				if !succ[0].Result.PublicKeyShares[j].Equal(shares[j]) {
					fail("derived-qualified-set", "public key share %d differs from the on-chain record's (qualified %v)\n%s", j, ref.qualified(r.sc.N), hist())
				}
			}
		}
		if r.sc.Fair && st.Premise && len(r.sc.Byz) <= r.sc.N-r.sc.T {
			for _, o := range outs {
				if !o.HasRow || !o.Success {
					fail("derived-robust-success", "fair schedule, honest messages in phase, %d Byzantine <= n-t, but honest k%d reports hasRow=%v success=%v error=%q (qualified per chain record: %v)\n%s",
						len(r.sc.Byz), o.Pos, o.HasRow, o.Success, o.Error, ref.qualified(r.sc.N), hist())
				}
			}
		}
	}
	return st, ref
}

func (r *Run) history() string {
	var bz []string
	for _, p := range sortedKeys(r.byz) {
		bz = append(bz, fmt.Sprintf("byz%d sent %v", p, r.byz[p].sent))
	}
	return fmt.Sprintf("scenario: %s\nevaluated eon=%d h0=%d (second eon: %d at %d)\nschedule: %s\n%s\nstep errors: %v", r.scText, r.eon, r.h0, r.eon2, r.h1, strings.Join(r.sched, " "), strings.Join(bz, "\n"), r.stepErrors)
}

func msgKind(tx *TxRec) string {
	m := tx.Msg
	switch {
	case m == nil:
		return "undecodable"
	case m.GetBatchConfig() != nil:
		return "batchconfig"
	case m.GetBlockSeen() != nil:
		return fmt.Sprintf("blockseen(%d)", m.GetBlockSeen().BlockNumber)
	case m.GetCheckIn() != nil:
		return "checkin"
	case m.GetDkgResult() != nil:
		return fmt.Sprintf("dkgresult(%v)", m.GetDkgResult().Success)
	case m.GetPolyCommitment() != nil:
		return "commitment"
	case m.GetPolyEval() != nil:
		return fmt.Sprintf("polyeval(%d)", len(m.GetPolyEval().Receivers))
	case m.GetAccusation() != nil:
		return fmt.Sprintf("accusation(%d)", len(m.GetAccusation().Accused))
	case m.GetApology() != nil:
		return fmt.Sprintf("apology(%d)", len(m.GetApology().Accusers))
	}
	return "other"
}

// ---------------------------------------------------------------------------
// persisted == memory

// memoryDKG reads the unexported cache of a ShuttermintState: whether it is
// synchronized with the database and the PureDKG object per eon. (Read-only
// peek through reflect/unsafe; the repository offers no accessor.)
func memoryDKG(st *smobserver.ShuttermintState) (synchronized bool, m map[uint64]*puredkg.PureDKG) {
	v := reflect.ValueOf(st).Elem()
	synchronized = v.FieldByName("synchronized").Bool()
	m = map[uint64]*puredkg.PureDKG{}
	it := v.FieldByName("dkg").MapRange()
	for it.Next() {
		active := it.Value() // *ActiveDKG
		if active.IsNil() {
			continue
		}
		pf := active.Elem().FieldByName("pure") // *puredkg.PureDKG
		if pf.IsNil() {
			continue
		}
		m[it.Key().Uint()] = (*puredkg.PureDKG)(unsafe.Pointer(pf.Pointer()))
	}
	return synchronized, m
}

// pureCanon is a canonical text of a PureDKG (maps sorted, nil entries kept).
func pureCanon(p *puredkg.PureDKG) string {
	var sb strings.Builder
	fmt.Fprintf(&sb, "phase=%v eon=%d n=%d t=%d keyper=%d", p.Phase, p.Eon, p.NumKeypers, p.Threshold, p.Keyper)
	sb.WriteString(" poly=")
	if p.Polynomial == nil {
		sb.WriteString("nil")
	} else {
		for _, c := range *p.Polynomial {
			fmt.Fprintf(&sb, "%x,", c)
		}
	}
	sb.WriteString(" commitments=[")
	for _, c := range p.Commitments {
		if c == nil {
			sb.WriteString("nil ")
		} else {
			fmt.Fprintf(&sb, "%x ", sha8(c.Marshal()))
		}
	}
	sb.WriteString("] evals=[")
	for _, e := range p.Evals {
		if e == nil {
			sb.WriteString("nil ")
		} else {
			fmt.Fprintf(&sb, "%x ", sha8(e.Bytes()))
		}
	}
	sb.WriteString("]")
	// Accusations / Apologies have unexported key types: go through reflect
	var acc, apo []string
	it := reflect.ValueOf(p.Accusations).MapRange()
	for it.Next() {
		acc = append(acc, fmt.Sprintf("%d>%d", it.Key().Field(0).Uint(), it.Key().Field(1).Uint()))
	}
	it = reflect.ValueOf(p.Apologies).MapRange()
	for it.Next() {
		ev := it.Value().Interface().(*big.Int)
		apo = append(apo, fmt.Sprintf("%d>%d:%x", it.Key().Field(0).Uint(), it.Key().Field(1).Uint(), sha8(ev.Bytes())))
	}
	sort.Strings(acc)
	sort.Strings(apo)
	fmt.Fprintf(&sb, " accusations=%v apologies=%v", acc, apo)
	return sb.String()
}

func sha8(b []byte) []byte { return crypto.Keccak256(b)[:6] }

// persistedVsMemory: "" if the keyper's cache is not loaded, or if for every
// eon the PureDKG in memory equals the one decoded from the puredkg table.
// Otherwise a description of the difference. Whatever the keyper knows after
// a committed block must be in the database, or a crash right now loses it.
func persistedVsMemory(n *Node) string {
	synced, mem := memoryDKG(n.State)
	if !synced {
		return ""
	}
	stored := map[uint64]*puredkg.PureDKG{}
	for _, row := range n.Srv.Rows("puredkg") {
		p, err := shdb.DecodePureDKG(row["puredkg"].([]byte))
		if err != nil {
			return fmt.Sprintf("stored puredkg of eon %v does not decode: %v", row["eon"], err)
		}
		stored[uint64(row["eon"].(int64))] = p
	}
	var eons []uint64
	for e := range mem {
		eons = append(eons, e)
	}
	for e := range stored {
		if _, ok := mem[e]; !ok {
			eons = append(eons, e)
		}
	}
	sort.Slice(eons, func(i, j int) bool { return eons[i] < eons[j] })
	for _, e := range eons {
		m, s := mem[e], stored[e]
		switch {
		case m == nil:
			return fmt.Sprintf("eon %d: the database has a puredkg row, memory has no DKG", e)
		case s == nil:
			return fmt.Sprintf("eon %d: memory has a DKG, the database has no puredkg row", e)
		case pureCanon(m) != pureCanon(s):
			return fmt.Sprintf("eon %d:\n  memory  : %s\n  database: %s", e, pureCanon(m), pureCanon(s))
		}
	}
	return ""
}

// switchToSecondEon re-labels the run for the evaluation of the second,
// overlapping eon: positions are those of keyper set 2, the Byzantine keypers
// (which only act in the first eon) count as silent members.
func (r *Run) switchToSecondEon() {
	order2 := r.sc.order2()
	byU := map[int]*Node{}
	for _, n := range r.nodes {
		byU[n.U] = n
	}
	nodes := map[int]*Node{}
	byzS := map[int]ByzStrategy{}
	var addrs []common.Address
	for p, u := range order2 {
		addrs = append(addrs, uni.Addrs[u])
		if n := byU[u]; n != nil {
			n.Pos = p
			nodes[p] = n
		} else {
			byzS[p] = ByzStrategy{Commit: cmNone, Apology: apNone, Eval: map[int]int{}}
		}
	}
	r.first0, r.firstEon = r.h0, r.eon
	r.sc.Order, r.sc.Byz, r.nodes, r.addrs = order2, byzS, nodes, addrs
	r.h0, r.eon = r.h1, r.eon2
	r.h1, r.eon2 = r.first0, r.firstEon
}

// phaseVsHeight: for every key generation a keyper has in memory, the phase
// must be the one that follows from the height of the last block it applied,
// the eon's start height and the phase length (a finished one must be gone).
// "" if the cache is not loaded or everything is in step.
func phaseVsHeight(n *Node, L int64) string {
	synced, mem := memoryDKG(n.State)
	if !synced || len(mem) == 0 {
		return ""
	}
	h := n.syncedTo()
	start := map[uint64]int64{}
	for _, row := range n.Srv.Rows("eons") {
		start[uint64(row["eon"].(int64))] = row["height"].(int64)
	}
	var eons []uint64
	for e := range mem {
		eons = append(eons, e)
	}
	sort.Slice(eons, func(i, j int) bool { return eons[i] < eons[j] })
	for _, e := range eons {
		s, ok := start[e]
		if !ok {
			return fmt.Sprintf("eon %d is in memory without an eons row", e)
		}
		want := puredkg.Finalized
		switch d := h - s; {
		case d < 0:
			want = puredkg.Off
		case d < L:
			want = puredkg.Dealing
		case d < 2*L:
			want = puredkg.Accusing
		case d < 3*L:
			want = puredkg.Apologizing
		}
		if got := mem[e].Phase; got != want || want == puredkg.Finalized {
			return fmt.Sprintf("eon %d (started at height %d, phase length %d): last applied block %d demands phase %v, the keyper's DKG is in phase %v", e, s, L, h, want, got)
		}
	}
	return ""
}
