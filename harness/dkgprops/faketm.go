// Package dkgprops holds the checks of C07 (agreement of honest keypers in the
// DKG despite Byzantine participants) and C08 (crash consistency of the
// shuttermint follower), and `faketm`, the Tendermint stand-in they run on.
//
// faketm = the repository's real app.ShutterApp behind a consensus loop that
// the harness owns (InitChain; per block BeginBlock -> DeliverTx* -> EndBlock
// -> Commit, every response recorded per height), plus an implementation of
// tendermint's rpc client.Client restricted to the four calls the keyper
// makes (Block, BlockResults, BlockchainInfo, BroadcastTxCommit). Nothing
// runs concurrently: a transaction is delivered into the currently open
// block at the moment BroadcastTxCommit is called and the harness decides
// when that block closes.
package dkgprops

import (
	"context"
	"crypto/sha256"
	"errors"
	"fmt"

	"github.com/ethereum/go-ethereum/common"
	"github.com/tendermint/go-amino"
	abcitypes "github.com/tendermint/tendermint/abci/types"
	tmcrypto "github.com/tendermint/tendermint/proto/tendermint/crypto"
	tmproto "github.com/tendermint/tendermint/proto/tendermint/types"
	"github.com/tendermint/tendermint/rpc/client"
	coretypes "github.com/tendermint/tendermint/rpc/core/types"
	tmtypes "github.com/tendermint/tendermint/types"

	"github.com/shutter-network/rolling-shutter/rolling-shutter/app"
	"github.com/shutter-network/rolling-shutter/rolling-shutter/shmsg"
	"verif/harness/apphist"
)

// TxRec is one transaction that reached DeliverTx.
type TxRec struct {
	Height   int64
	Index    int
	Raw      []byte
	Origin   string // who handed it to the chain ("k0", "byz2", ...)
	Admitted bool   // passed CheckTx and was delivered
	Signer   common.Address
	Msg      *shmsg.Message // nil if undecodable
	Nonce    uint64
	Code     uint32
	Log      string
	Events   []abcitypes.Event
}

// BlockRec is everything the application answered for one height.
type BlockRec struct {
	Height  int64
	Begin   abcitypes.ResponseBeginBlock
	Txs     []*TxRec
	Deliver []*abcitypes.ResponseDeliverTx
	End     abcitypes.ResponseEndBlock
}

// Chain is the consensus loop. Heights 1..Height() are closed; height
// Height()+1 is open (BeginBlock already executed) and collects transactions.
type Chain struct {
	ChainID   string
	Apps      []*app.ShutterApp // replica 0 answers; the others are compared with it
	Closed    []*BlockRec
	Open      *BlockRec
	AllTxs    []*TxRec
	Rejected  []*TxRec // refused by CheckTx (Code is CheckTx's)
	Submitted []*TxRec // every transaction handed to Submit, in order (Admitted says which list it is in)

	AppPanics  []string // recovered panics of any application call
	Divergence []string // replica disagreements
}

type ChainGenesis struct {
	Keypers     []common.Address
	Threshold   int
	InitialEon  uint64
	ForkEnabled bool // check-in update fork active from genesis
	Validators  [][]byte
	Replicas    int
}

func newShutterApp(g ChainGenesis) *app.ShutterApp {
	a := app.NewShutterApp()
	var fh *app.ForkHeights
	if g.ForkEnabled {
		fh = &app.ForkHeights{CheckInUpdateNew: app.ForkHeight{Enabled: true, Height: 0}}
	}
	st := app.NewGenesisAppState(g.Keypers, g.Threshold, g.InitialEon, fh)
	b, err := amino.NewCodec().MarshalJSON(st)
	if err != nil {
		panic(err)
	}
	var vals []abcitypes.ValidatorUpdate
	for _, v := range g.Validators {
		vals = append(vals, abcitypes.ValidatorUpdate{
			PubKey: tmcrypto.PublicKey{Sum: &tmcrypto.PublicKey_Ed25519{Ed25519: v}}, Power: 10,
		})
	}
	a.InitChain(abcitypes.RequestInitChain{ChainId: apphist.ChainID, AppStateBytes: b, Validators: vals})
	return a
}

// NewChain runs InitChain on Replicas (>=1) fresh applications and opens block 1.
func NewChain(g ChainGenesis) *Chain {
	c := &Chain{ChainID: apphist.ChainID}
	r := g.Replicas
	if r < 1 {
		r = 1
	}
	for i := 0; i < r; i++ {
		c.Apps = append(c.Apps, newShutterApp(g))
	}
	c.beginBlock()
	return c
}

// Height is the height of the last closed block (0 = none).
func (c *Chain) Height() int64 { return int64(len(c.Closed)) }

// OpenHeight is the height transactions are currently delivered into.
func (c *Chain) OpenHeight() int64 { return c.Height() + 1 }

type marshaler interface{ Marshal() ([]byte, error) }

func mustMarshal(m marshaler) []byte {
	b, err := m.Marshal()
	if err != nil {
		panic(err)
	}
	return b
}

// each runs f on every replica, recovering panics, and compares the
// marshalled answers (Log/Info are documented as non-deterministic and are
// blanked by the callers before marshalling).
func (c *Chain) each(what string, f func(a *app.ShutterApp) []byte) {
	var first []byte
	for i, a := range c.Apps {
		var out []byte
		func() {
			defer func() {
				if r := recover(); r != nil {
					c.AppPanics = append(c.AppPanics, fmt.Sprintf("%s at open height %d (replica %d): %v", what, c.OpenHeight(), i, r))
				}
			}()
			out = f(a)
		}()
		if i == 0 {
			first = out
		} else if string(out) != string(first) {
			c.Divergence = append(c.Divergence, fmt.Sprintf("%s at open height %d: replica %d answers differently", what, c.OpenHeight(), i))
		}
	}
}

func (c *Chain) beginBlock() {
	h := c.Height() + 1
	rec := &BlockRec{Height: h}
	c.each("BeginBlock", func(a *app.ShutterApp) []byte {
		resp := a.BeginBlock(abcitypes.RequestBeginBlock{Header: tmproto.Header{ChainID: c.ChainID, Height: h}})
		if a == c.Apps[0] {
			rec.Begin = resp
		}
		return mustMarshal(&resp)
	})
	c.Open = rec
}

// CloseBlock runs EndBlock and Commit for the open block and opens the next one.
func (c *Chain) CloseBlock() *BlockRec {
	rec := c.Open
	c.each("EndBlock", func(a *app.ShutterApp) []byte {
		resp := a.EndBlock(abcitypes.RequestEndBlock{Height: rec.Height})
		if a == c.Apps[0] {
			rec.End = resp
		}
		return mustMarshal(&resp)
	})
	c.each("Commit", func(a *app.ShutterApp) []byte {
		resp := a.Commit()
		return mustMarshal(&resp)
	})
	c.Closed = append(c.Closed, rec)
	c.beginBlock()
	return rec
}

// Submit is what a Tendermint node does with a broadcast transaction in this
// model: CheckTx (mempool admission) and, if admitted, DeliverTx into the open
// block. The returned record carries the DeliverTx answer (or CheckTx's code
// if it was refused; admitted == false then).
func (c *Chain) Submit(tx []byte, origin string) (rec *TxRec, check abcitypes.ResponseCheckTx, admitted bool) {
	d := apphist.Decode(tx)
	rec = &TxRec{Height: c.OpenHeight(), Raw: append([]byte(nil), tx...), Origin: origin}
	if d.OK {
		rec.Signer = d.Signer
		rec.Msg = d.Msg.GetMsg()
		rec.Nonce = d.Msg.GetRandomNonce()
	}
	c.Submitted = append(c.Submitted, rec)
	check = abcitypes.ResponseCheckTx{Code: 1, Log: "faketm: CheckTx panicked"}
	c.each("CheckTx", func(a *app.ShutterApp) []byte {
		resp := a.CheckTx(abcitypes.RequestCheckTx{Tx: tx})
		if a == c.Apps[0] {
			check = resp
		}
		resp.Log, resp.Info = "", ""
		return mustMarshal(&resp)
	})
	if check.Code != 0 {
		rec.Code, rec.Log = check.Code, check.Log
		c.Rejected = append(c.Rejected, rec)
		return rec, check, false
	}
	deliver := abcitypes.ResponseDeliverTx{Code: 1, Log: "faketm: DeliverTx panicked"}
	c.each("DeliverTx", func(a *app.ShutterApp) []byte {
		resp := a.DeliverTx(abcitypes.RequestDeliverTx{Tx: tx})
		if a == c.Apps[0] {
			deliver = resp
		}
		resp.Log, resp.Info = "", ""
		return mustMarshal(&resp)
	})
	rec.Index = len(c.Open.Txs)
	rec.Admitted = true
	rec.Code, rec.Log, rec.Events = deliver.Code, deliver.Log, deliver.Events
	c.Open.Txs = append(c.Open.Txs, rec)
	c.Open.Deliver = append(c.Open.Deliver, &deliver)
	c.AllTxs = append(c.AllTxs, rec)
	return rec, check, true
}

// Block returns the record of a closed block.
func (c *Chain) Block(h int64) *BlockRec {
	if h < 1 || h > c.Height() {
		return nil
	}
	return c.Closed[h-1]
}

// ---------------------------------------------------------------------------
// RPC client

// ErrBroadcastRefused is what BroadcastTxCommit returns when the schedule
// withholds the node's service (models an RPC failure before the transaction
// reached the mempool).
var ErrBroadcastRefused = errors.New("faketm: broadcast refused by schedule (rpc unavailable)")

// Client implements the part of tendermint's rpc client the keyper uses.
// Every other method of the embedded (nil) interface panics if called, which
// the harness would report - so a new RPC dependency of the code under test
// cannot go unnoticed.
type Client struct {
	client.Client
	chain *Chain
	Name  string

	// SendBudget limits the number of transactions this client may still get
	// into the open block (<0: unlimited). The harness resets it per step.
	SendBudget int
	// AfterDeliver is called after a transaction of this client was
	// delivered (before BroadcastTxCommit returns). C08 uses it to kill the
	// caller at exactly this instant (it panics with a sentinel).
	AfterDeliver func(rec *TxRec)
	// Dead makes every call fail: the process behind this client is gone.
	Dead bool
	// Trace and Watch, if set, are called at the start of every RPC call
	// (two independent observers).
	Trace func(method string)
	Watch func(method string)

	NBlock, NBlockResults, NInfo, NBroadcast, NRefused int
}

var errClientDead = errors.New("faketm: client belongs to a crashed process")

func (c *Chain) NewClient(name string) *Client {
	return &Client{chain: c, Name: name, SendBudget: -1}
}

func (cl *Client) header(h int64) tmtypes.Header {
	return tmtypes.Header{ChainID: cl.chain.ChainID, Height: h}
}

func (cl *Client) makeBlock(h int64) *coretypes.ResultBlock {
	rec := cl.chain.Block(h)
	var txs tmtypes.Txs
	for _, t := range rec.Txs {
		txs = append(txs, tmtypes.Tx(t.Raw))
	}
	hash := sha256.Sum256([]byte(fmt.Sprintf("faketm-block-%d", h)))
	return &coretypes.ResultBlock{
		BlockID: tmtypes.BlockID{Hash: hash[:]},
		Block: &tmtypes.Block{
			Header: cl.header(h),
			Data:   tmtypes.Data{Txs: txs},
			// A block carries the commit of its predecessor.
			LastCommit: &tmtypes.Commit{Height: h - 1},
		},
	}
}

// Block: height nil = latest closed block. With no closed block the result
// has a nil Block (the keyper treats that as "chain still empty").
func (cl *Client) Block(_ context.Context, height *int64) (*coretypes.ResultBlock, error) {
	if cl.Dead {
		return nil, errClientDead
	}
	cl.NBlock++
	if cl.Trace != nil {
		cl.Trace("Block")
	}
	if cl.Watch != nil {
		cl.Watch("Block")
	}
	latest := cl.chain.Height()
	h := latest
	if height != nil {
		h = *height
	}
	if latest == 0 && height == nil {
		return &coretypes.ResultBlock{}, nil
	}
	if h < 1 || h > latest {
		return nil, fmt.Errorf("height %d must be less than or equal to the current blockchain height %d", h, latest)
	}
	return cl.makeBlock(h), nil
}

func (cl *Client) BlockResults(_ context.Context, height *int64) (*coretypes.ResultBlockResults, error) {
	if cl.Dead {
		return nil, errClientDead
	}
	cl.NBlockResults++
	if cl.Trace != nil {
		cl.Trace("BlockResults")
	}
	if cl.Watch != nil {
		cl.Watch("BlockResults")
	}
	latest := cl.chain.Height()
	h := latest
	if height != nil {
		h = *height
	}
	if h < 1 || h > latest {
		return nil, fmt.Errorf("height %d must be less than or equal to the current blockchain height %d", h, latest)
	}
	rec := cl.chain.Block(h)
	return &coretypes.ResultBlockResults{
		Height:           h,
		TxsResults:       rec.Deliver,
		BeginBlockEvents: rec.Begin.Events,
		EndBlockEvents:   rec.End.Events,
		ValidatorUpdates: rec.End.ValidatorUpdates,
	}, nil
}

// BlockchainInfo returns block metas in descending height order like
// Tendermint (at most 20; min/max 0 = no bound).
func (cl *Client) BlockchainInfo(_ context.Context, minHeight, maxHeight int64) (*coretypes.ResultBlockchainInfo, error) {
	if cl.Dead {
		return nil, errClientDead
	}
	cl.NInfo++
	if cl.Trace != nil {
		cl.Trace("BlockchainInfo")
	}
	if cl.Watch != nil {
		cl.Watch("BlockchainInfo")
	}
	latest := cl.chain.Height()
	if maxHeight <= 0 || maxHeight > latest {
		maxHeight = latest
	}
	if minHeight < 1 {
		minHeight = 1
	}
	if maxHeight-minHeight+1 > 20 {
		minHeight = maxHeight - 19
	}
	res := &coretypes.ResultBlockchainInfo{LastHeight: latest}
	for h := maxHeight; h >= minHeight; h-- {
		res.BlockMetas = append(res.BlockMetas, &tmtypes.BlockMeta{Header: cl.header(h), NumTxs: len(cl.chain.Block(h).Txs)})
	}
	return res, nil
}

func (cl *Client) BroadcastTxCommit(_ context.Context, tx tmtypes.Tx) (*coretypes.ResultBroadcastTxCommit, error) {
	if cl.Dead {
		return nil, errClientDead
	}
	cl.NBroadcast++
	if cl.Trace != nil {
		cl.Trace("BroadcastTxCommit")
	}
	if cl.Watch != nil {
		cl.Watch("BroadcastTxCommit")
	}
	if cl.SendBudget == 0 {
		cl.NRefused++
		return nil, ErrBroadcastRefused
	}
	rec, check, admitted := cl.chain.Submit([]byte(tx), cl.Name)
	res := &coretypes.ResultBroadcastTxCommit{CheckTx: check, Hash: tx.Hash()}
	if !admitted {
		return res, nil
	}
	if cl.SendBudget > 0 {
		cl.SendBudget--
	}
	res.DeliverTx = *cl.chain.Open.Deliver[rec.Index]
	res.Height = rec.Height
	if cl.AfterDeliver != nil {
		cl.AfterDeliver(rec)
	}
	return res, nil
}
